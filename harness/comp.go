package main

import (
	"errors"
	"context"
	"fmt"
	"net/http"
	"net/url"
	"runtime"
	"sort"
	"strings"

	mux "github.com/issue9/mux/v9"
	"github.com/issue9/mux/v9/simrt"
	"github.com/issue9/mux/v9/types"
)

// ---- simulated user components ---------------------------------------------------

type CKind int

const (
	KRoute CKind = iota
	KOptions
	K405
	K404
	KTrace
	KGroup404
	KMW
)

var kindNames = [...]string{"route", "options", "405", "404", "trace", "g404", "mw"}

func (k CKind) String() string { return kindNames[k] }

// WOp is one step of a handler write script.
type WOp struct {
	Op   string `json:"op"` // set add del status write flush
	K    string `json:"k,omitempty"`
	V    string `json:"v,omitempty"`
	Code int    `json:"code,omitempty"`
	N    int    `json:"n,omitempty"`
}

// Comp is the handler type T of every simulated router: Router[*Comp].
type Comp struct {
	ID     int
	Kind   CKind
	Node   types.Node // node captured by the OPTIONS/405 builder
	Tag    string     // KMW
	Next   *Comp      // KMW
	Script []WOp      // KRoute
	env    *Env
}

func (c *Comp) base() *Comp {
	for c != nil && c.Kind == KMW {
		c = c.Next
	}
	return c
}

// FactoryCall is one invocation of a middleware factory.
type FactoryCall struct {
	Tag, Method, Pattern, Router string
	Base                         int // id of the innermost wrapped component
	BaseKind                     CKind
}

// FaultSpec arms one panic inside a simulated component for one request.
type FaultSpec struct {
	Site  string `json:"site"`  // h:route h:head h:options h:405 h:404 h:trace h:g404 mw:<tag>
	Phase string `json:"phase"` // pre | mid | post
	Val   string `json:"val"`   // ptr err str struct rt
	fired bool
	value any
}

// Env holds everything the simulated components of one world share.
type Env struct {
	nextID    int
	Factory   []FactoryCall
	DefScript []WOp
	UniqueIDs bool // builders hand out unique component ids (only in single-goroutine worlds)
	Arena     bool // middleware lists share one backing array (adversarial but legal caller)
	Quiet     bool // factories do not log their calls (worlds where several tasks register concurrently)
	arena     []types.Middleware[*Comp]
	// per-task id spaces in concurrent worlds: id = task*100000 + n
}

func NewEnv() *Env { return &Env{nextID: 1} }

func (e *Env) newComp(k CKind) *Comp {
	c := &Comp{ID: e.nextID, Kind: k, env: e}
	e.nextID++
	return c
}

// Handler makes a route handler with an explicit id (ids of route handlers are
// chosen by the world so that models can refer to them).
func (e *Env) Handler(id int, script []WOp) *Comp {
	return &Comp{ID: id, Kind: KRoute, Script: script, env: e}
}

func (e *Env) NotFound(id int) *Comp { return &Comp{ID: e.builderID(id), Kind: K404, env: e} }
func (e *Env) TraceH(id int) *Comp   { return &Comp{ID: id, Kind: KTrace, env: e} }
func (e *Env) Group404(id int) *Comp { return &Comp{ID: id, Kind: KGroup404, env: e} }

// Builders capture the node, exactly as README and examples/std do.
func (e *Env) OptionsBuilder(base int) types.BuildNodeHandler[*Comp] {
	return func(n types.Node) *Comp { return &Comp{ID: e.builderID(base), Kind: KOptions, Node: n, env: e} }
}

func (e *Env) builderID(base int) int {
	if !e.UniqueIDs {
		return base
	}
	e.nextID++
	return 2000000 + e.nextID
}
func (e *Env) NotAllowedBuilder(base int) types.BuildNodeHandler[*Comp] {
	return func(n types.Node) *Comp { return &Comp{ID: e.builderID(base), Kind: K405, Node: n, env: e} }
}

// MW is a simulated middleware with a tag.
type MW struct {
	Tag string
	env *Env
}

func (m *MW) Middleware(next *Comp, method, pattern, router string) *Comp {
	fc := FactoryCall{Tag: m.Tag, Method: method, Pattern: pattern, Router: router, Base: -1}
	if b := next.base(); b != nil {
		fc.Base, fc.BaseKind = b.ID, b.Kind
	}
	if !m.env.Quiet {
		m.env.Factory = append(m.env.Factory, fc)
	}
	return &Comp{ID: -1, Kind: KMW, Tag: m.Tag, Next: next, env: m.env}
}

// MWs builds a middleware list.  With Arena set the harness behaves like a
// caller that re-uses one buffer for all its variadic middleware arguments:
// every list is a sub-slice of one backing array with spare capacity behind it,
// so a callee that appends to (or keeps) the caller's slice instead of copying
// it gets its middlewares overwritten by the next call.
func (e *Env) MWs(tags ...string) []types.Middleware[*Comp] {
	if len(tags) == 0 {
		return nil
	}
	if e.Arena {
		if e.arena == nil || len(e.arena)+len(tags) > cap(e.arena) {
			e.arena = make([]types.Middleware[*Comp], 0, 256)
		}
		start := len(e.arena)
		for _, t := range tags {
			e.arena = append(e.arena, &MW{Tag: t, env: e})
		}
		return e.arena[start:len(e.arena)] // cap reaches into the unused rest of the arena
	}
	ms := make([]types.Middleware[*Comp], 0, len(tags))
	for _, t := range tags {
		ms = append(ms, &MW{Tag: t, env: e})
	}
	return ms
}

// ---- per-request record -----------------------------------------------------------

type ReqRec struct {
	Called    int
	Zero      bool // CallFunc got the zero handler (a real handler type would crash)
	HID       int
	Kind      CKind
	Pattern   string
	NodeNil   bool
	Params    map[string]string
	Params2   map[string]string // second read after a yield (C07)
	Router    string
	PathSeen  string
	Trace     []string
	AllowNode string   // Route.Node().AllowHeader() at call time
	Methods   []string // Route.Node().Methods() at call time
	Faults    []*FaultSpec
	Hook      func(rec *ReqRec, route types.Route) // extra observation inside the handler
	Comp      *Comp
}

type recKey struct{}

func recOf(r *http.Request) *ReqRec {
	if v, ok := r.Context().Value(recKey{}).(*ReqRec); ok {
		return v
	}
	return &ReqRec{}
}

// InjectedPanic is the panic value family thrown by armed faults.
type InjectedPanic struct{ N int }

type injErr struct{ n int }

func (e *injErr) Error() string { return fmt.Sprintf("injected-error-%d", e.n) }

type injStruct struct {
	A int
	B string
}

func (f *FaultSpec) makeValue(n int) any {
	switch f.Val {
	case "ptr":
		return &InjectedPanic{N: n}
	case "err":
		return &injErr{n: n}
	case "str":
		return fmt.Sprintf("injected-string-%d", n)
	case "struct":
		return injStruct{A: n, B: "injected"}
	case "abort":
		return http.ErrAbortHandler // net/http's own sentinel: "every panic value" includes it
	}
	return &InjectedPanic{N: n}
}

func (rec *ReqRec) maybeFault(site, phase string) {
	for _, f := range rec.Faults {
		if f.fired || f.Site != site || f.Phase != phase {
			continue
		}
		f.fired = true
		if f.Val == "rt" { // a genuine runtime.Error provoked inside the component
			var m map[string]int
			defer func() {
				r := recover()
				f.value = r
				panic(r)
			}()
			m["x"] = 1
		}
		panic(f.value)
	}
}

func snapshotParams(p types.Params) map[string]string {
	m := map[string]string{}
	if p != nil {
		p.Range(func(k, v string) { m[k] = v })
	}
	return m
}

// Call is the CallFunc of every simulated router and group.
func (e *Env) Call(w http.ResponseWriter, r *http.Request, route types.Route, h *Comp) {
	rec := recOf(r)
	rec.Called++
	if h == nil {
		rec.Zero = true
		return
	}
	e.exec(w, r, route, h, rec)
}

func (e *Env) exec(w http.ResponseWriter, r *http.Request, route types.Route, h *Comp, rec *ReqRec) {
	if h == nil {
		rec.Zero = true
		return
	}
	if h.Kind == KMW {
		rec.Trace = append(rec.Trace, h.Tag)
		rec.maybeFault("mw:"+h.Tag, "pre")
		e.exec(w, r, route, h.Next, rec)
		rec.maybeFault("mw:"+h.Tag, "post")
		return
	}

	rec.HID, rec.Kind, rec.Comp = h.ID, h.Kind, h
	rec.Router = route.RouterName()
	rec.PathSeen = r.URL.Path
	rec.Params = snapshotParams(route.Params())
	if n := route.Node(); n != nil {
		rec.Pattern = n.Pattern()
		rec.AllowNode = n.AllowHeader()
		rec.Methods = n.Methods()
	} else {
		rec.NodeNil = true
	}
	if rec.Hook != nil {
		rec.Hook(rec, route)
	}

	site := "h:" + h.Kind.String()
	if h.Kind == KRoute && r.Method == http.MethodHead {
		site = "h:head"
	}
	rec.maybeFault(site, "pre")

	switch h.Kind {
	case KRoute:
		script := h.Script
		if script == nil {
			script = e.DefScript
		}
		if script == nil {
			w.Write([]byte("hello"))
			rec.maybeFault(site, "mid")
			return
		}
		for i, op := range script {
			if i == (len(script)+1)/2 {
				rec.maybeFault(site, "mid")
			}
			switch op.Op {
			case "set":
				w.Header().Set(op.K, op.V)
			case "add":
				w.Header().Add(op.K, op.V)
			case "del":
				w.Header().Del(op.K)
			case "status":
				w.WriteHeader(op.Code)
			case "write":
				w.Write(make([]byte, op.N))
			case "flush":
				if f, ok := w.(http.Flusher); ok {
					f.Flush()
				}
			}
		}
		rec.maybeFault(site, "mid")
	case KOptions:
		if h.Node != nil {
			w.Header().Set("Allow", h.Node.AllowHeader())
		}
		w.WriteHeader(http.StatusOK)
		rec.maybeFault(site, "mid")
	case K405:
		if h.Node != nil {
			w.Header().Set("Allow", h.Node.AllowHeader())
		}
		w.WriteHeader(http.StatusMethodNotAllowed)
		rec.maybeFault(site, "mid")
	case K404, KGroup404:
		w.WriteHeader(http.StatusNotFound)
		rec.maybeFault(site, "mid")
	case KTrace:
		w.Header().Set("X-Trace-Comp", "1")
		w.WriteHeader(http.StatusOK)
		rec.maybeFault(site, "mid")
	}
}

// ---- simulated connection ------------------------------------------------------------

// SimConn is the http.ResponseWriter of the simulation: it keeps what would be
// on the wire (header snapshot at the first WriteHeader/Write) apart from the
// live header map.
type SimConn struct {
	hdr         http.Header
	WroteHeader bool
	Status      int
	Wire        http.Header
	BodyLen     int
	Body        []byte
	KeepBody    bool
	Writes      int
	Flushes     int
	FailWrite   int    // >0: the FailWrite-th Write fails ...
	FailMode    string // ... "panic" (the connection is gone: net/http aborts the handler) or "err"
}

func NewConn() *SimConn { return &SimConn{hdr: http.Header{}} }

func (c *SimConn) Header() http.Header { return c.hdr }

func (c *SimConn) WriteHeader(code int) {
	if c.WroteHeader {
		return // net/http logs "superfluous WriteHeader" and ignores it
	}
	c.WroteHeader = true
	c.Status = code
	c.Wire = c.hdr.Clone()
}

func (c *SimConn) Write(b []byte) (int, error) {
	if !c.WroteHeader {
		c.WriteHeader(http.StatusOK)
	}
	c.Writes++
	if c.FailWrite > 0 && c.Writes == c.FailWrite {
		if c.FailMode == "panic" {
			panic(http.ErrAbortHandler)
		}
		return 0, errors.New("injected-write-error")
	}
	c.BodyLen += len(b)
	if c.KeepBody {
		c.Body = append(c.Body, b...)
	}
	return len(b), nil
}

func (c *SimConn) Flush() {
	if !c.WroteHeader {
		c.WriteHeader(http.StatusOK)
	}
	c.Flushes++
}

// Finish emulates net/http's end of request.
func (c *SimConn) Finish() {
	if !c.WroteHeader {
		c.WriteHeader(http.StatusOK)
	}
}

// ---- one request ----------------------------------------------------------------------

// Obs is everything observable about one request.
type Obs struct {
	Status   int
	HID      int
	Kind     CKind
	Pattern  string
	NodeNil  bool
	Params   map[string]string
	Router   string
	PathSeen string
	Trace    []string
	Allow    string // Allow header on the wire
	AllowNode string
	Methods  []string
	BodyLen  int
	Panic    string // "" | "runtime:<msg>" | "injected" | "other:<msg>"
	PanicVal any
	Zero     bool
	Called   int
	Live     http.Header
	Wire     http.Header
	Rec      *ReqRec
	Conn     *SimConn
}

type Req struct {
	Method string            `json:"m"`
	Path   string            `json:"p"`
	Host   string            `json:"host,omitempty"`
	Hdr    map[string]string `json:"hdr,omitempty"`
}

func (q Req) String() string {
	s := q.Method + " " + q.Path
	if q.Host != "" {
		s += " host=" + q.Host
	}
	return s
}

func classifyPanic(r any) string {
	switch v := r.(type) {
	case nil:
		return ""
	case simrt.BudgetExceeded, simrt.SelfDeadlock:
		return "nontermination"
	case *InjectedPanic, *injErr, injStruct:
		return "injected"
	case error:
		if v == http.ErrAbortHandler {
			return "injected"
		}
		if _, ok := v.(runtime.Error); ok {
			return "runtime:" + v.Error()
		}
		if strings.HasPrefix(v.Error(), "injected-") {
			return "injected"
		}
		return "other:" + v.Error()
	case string:
		if strings.HasPrefix(v, "injected-") {
			return "injected"
		}
		return "other:" + v
	default:
		return fmt.Sprintf("other:%v", v)
	}
}

func buildRequest(q Req, rec *ReqRec) *http.Request {
	r := &http.Request{
		Method:     q.Method,
		URL:        &url.URL{Path: q.Path},
		Proto:      "HTTP/1.1",
		ProtoMajor: 1,
		ProtoMinor: 1,
		Header:     http.Header{},
		Host:       q.Host,
		Body:       http.NoBody,
		RequestURI: q.Path,
	}
	// what net/http does for a request line that is not in canonical encoding: Path holds the decoded
	// path, RawPath the bytes as sent.  The router matches on Path; a quarter of the requests (by a hash
	// of the path) arrive with every byte percent-encoded in lower-case hex
	if len(q.Path) > 1 && len(q.Path) < 200 && q.Path != "*" && hashStr(7, q.Path)%4 == 0 {
		var sb strings.Builder
		sb.WriteByte(q.Path[0])
		for i := 1; i < len(q.Path); i++ {
			fmt.Fprintf(&sb, "%%%02x", q.Path[i])
		}
		r.URL.RawPath = sb.String()
	}
	for k, v := range q.Hdr {
		r.Header.Set(k, v)
	}
	return r.WithContext(context.WithValue(context.Background(), recKey{}, rec))
}

// requestBudget: statements one request (or one administrative call) may execute
// outside a task world before it is declared non-terminating.
const requestBudget = 3000000

// Serve performs one request against h (a Router or a Group) and reports what
// happened; panics escaping ServeHTTP are caught and classified.
func Serve(h http.Handler, q Req, faults []*FaultSpec, hook func(*ReqRec, types.Route)) (o Obs) {
	rec := &ReqRec{Faults: faults, Hook: hook}
	conn := NewConn()
	r := buildRequest(q, rec)
	func() {
		defer func() {
			if p := recover(); p != nil {
				o.Panic = classifyPanic(p)
				o.PanicVal = p
			}
			simrt.SetYieldBudget(0)
		}()
		simrt.SetYieldBudget(requestBudget) // a request that executes this many statements does not terminate
		h.ServeHTTP(conn, r)
	}()
	conn.Finish()
	o.Status = conn.Status
	o.HID, o.Kind, o.Pattern, o.NodeNil = rec.HID, rec.Kind, rec.Pattern, rec.NodeNil
	o.Params, o.Router, o.PathSeen, o.Trace = rec.Params, rec.Router, rec.PathSeen, rec.Trace
	o.AllowNode, o.Methods = rec.AllowNode, rec.Methods
	o.Zero, o.Called = rec.Zero, rec.Called
	o.Allow = conn.Wire.Get("Allow")
	o.BodyLen = conn.BodyLen
	o.Live, o.Wire = conn.hdr, conn.Wire
	o.Rec, o.Conn = rec, conn
	return o
}

// Key renders the dispatch-relevant part of an observation canonically.
func (o *Obs) Key() string {
	if o.Panic != "" {
		p := o.Panic
		if i := strings.Index(p, ":"); i > 0 && strings.HasPrefix(p, "runtime") {
			p = "runtime" // message text is not part of the outcome
		}
		return "panic(" + p + ")"
	}
	if o.Zero {
		return "zero-handler"
	}
	return fmt.Sprintf("%d h%d %s pat=%q params=%s allow=%s", o.Status, o.HID, o.Kind, o.Pattern, fmtParams(o.Params), canonSet(o.Allow))
}

func fmtParams(m map[string]string) string {
	ks := make([]string, 0, len(m))
	for k := range m {
		ks = append(ks, k)
	}
	sort.Strings(ks)
	var sb strings.Builder
	sb.WriteByte('{')
	for i, k := range ks {
		if i > 0 {
			sb.WriteByte(',')
		}
		fmt.Fprintf(&sb, "%s=%q", k, m[k])
	}
	sb.WriteByte('}')
	return sb.String()
}

// canonSet renders a comma separated header value as a sorted set.
func canonSet(v string) string {
	if v == "" {
		return "[]"
	}
	parts := strings.Split(v, ",")
	for i := range parts {
		parts[i] = strings.TrimSpace(parts[i])
	}
	sort.Strings(parts)
	return "[" + strings.Join(parts, " ") + "]"
}

func setOf(v string) map[string]bool {
	m := map[string]bool{}
	for _, p := range strings.Split(v, ",") {
		if p = strings.TrimSpace(p); p != "" {
			m[p] = true
		}
	}
	return m
}

func sortedKeys(m map[string]bool) []string {
	ks := make([]string, 0, len(m))
	for k := range m {
		ks = append(ks, k)
	}
	sort.Strings(ks)
	return ks
}

func sameSet(a map[string]bool, b map[string]bool) bool {
	if len(a) != len(b) {
		return false
	}
	for k := range a {
		if !b[k] {
			return false
		}
	}
	return true
}

// ---- router construction ----------------------------------------------------------------

// RouterOpts are the options of a simulated router (JSON: part of replay files).
type RouterOpts struct {
	Name         string   `json:"name"`
	Lock         bool     `json:"lock,omitempty"`
	Trace        bool     `json:"trace,omitempty"`
	Interceptors []string `json:"ic,omitempty"` // rule names: digit word any
	Recovery     string   `json:"recovery,omitempty"`
	URLDomain    string   `json:"domain,omitempty"`
	CORS         string   `json:"cors,omitempty"` // "" | any | list | cred | deny
}

// fixed component ids of the non-route handlers of router number k
const (
	id404     = 900001
	idTrace   = 900002
	idOptions = 900003
	id405     = 900004
	idG404    = 900005
)

func interceptorFunc(name string) func(string) bool {
	switch name {
	case "digit", "sim":
		return func(s string) bool {
			for i := 0; i < len(s); i++ {
				if s[i] < '0' || s[i] > '9' {
					return false
				}
			}
			return len(s) > 0
		}
	case "word":
		return func(s string) bool {
			for i := 0; i < len(s); i++ {
				c := s[i]
				if !(c >= '0' && c <= '9' || c >= 'a' && c <= 'z' || c >= 'A' && c <= 'Z') {
					return false
				}
			}
			return len(s) > 0
		}
	case "any":
		return func(s string) bool { return len(s) > 0 }
	case "min5": // a user interceptor that rejects short candidates and accepts longer ones
		return func(s string) bool { return len(s) >= 5 }
	case "\\d+":
		// registered under the text of a regexp rule, but with different semantics than that regexp:
		// domains added before the registration keep the regexp, domains added after it use this
		return interceptorFunc("word")
	case "[a-z]+":
		return interceptorFunc("word") // likewise: not what the regexp of that text accepts
	}
	return nil
}

func (o RouterOpts) muxOptions(e *Env, extra ...mux.Option) []mux.Option {
	var opts []mux.Option
	if o.Lock {
		opts = append(opts, mux.WithLock(true))
	}
	if o.Trace {
		opts = append(opts, mux.WithTrace(e.TraceH(idTrace)))
	}
	for _, ic := range o.Interceptors {
		switch ic {
		case "digit":
			opts = append(opts, mux.WithDigitInterceptor("digit"))
		case "word":
			opts = append(opts, mux.WithWordInterceptor("word"))
		case "any":
			opts = append(opts, mux.WithAnyInterceptor("any"))
		case "min5":
			opts = append(opts, mux.WithInterceptor(interceptorFunc("min5"), "min5"))
		case "":
			opts = append(opts, mux.WithInterceptor(interceptorFunc("min5"), ""))
		}
	}
	if o.URLDomain != "" {
		opts = append(opts, mux.WithURLDomain(o.URLDomain))
	}
	switch o.CORS {
	case "any":
		opts = append(opts, mux.WithAllowedCORS(3600))
	case "list":
		opts = append(opts, mux.WithCORS([]string{"https://a.com", "https://b.com"}, []string{"Content-Type", "X-Token"}, []string{"X-Exposed"}, -1, false))
	case "cred":
		opts = append(opts, mux.WithCORS([]string{"https://a.com"}, []string{"*"}, nil, 0, true))
	case "deny":
		opts = append(opts, mux.WithDenyCORS())
	}
	return append(opts, extra...)
}

func NewSimRouter(e *Env, o RouterOpts, extra ...mux.Option) *mux.Router[*Comp] {
	name := o.Name
	if name == "" {
		name = "r"
	}
	return mux.NewRouter[*Comp](name, e.Call, e.NotFound(id404), e.NotAllowedBuilder(id405), e.OptionsBuilder(idOptions), o.muxOptions(e, extra...)...)
}
