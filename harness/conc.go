package main

import (
	"fmt"
	"sort"
	"strings"
	"sync/atomic"
	"time"

	"github.com/anishathalye/porcupine"
	mux "github.com/issue9/mux/v9"
	"github.com/issue9/mux/v9/simrt"
)

// CONC worlds: real goroutines as tasks, statement-level interleaving decided by
// the seeded scheduler, -race build with hidden hand-offs.

type opLog struct {
	Task, Idx int
	Op        *Op
	Inv, Ret  int64
	Out       string
}

func genSim(r *Rng) *SimCfg {
	s := &SimCfg{Seed: r.U64()}
	switch r.Intn(10) {
	case 0, 1, 2, 3:
		s.Strategy = simrt.SWalk
		s.P = pick(r, []int{8, 32, 128, 512})
	case 4, 5, 6:
		s.Strategy = simrt.SPCT
		s.Depth = r.Range(1, 3)
	case 7, 8:
		s.Strategy = simrt.SLockEdge
	default:
		s.Strategy = simrt.SOpAtomic
	}
	return s
}

func simConfig(w *World) simrt.Config {
	cfg := simrt.Config{MaxSteps: 200000}
	if w.Sim != nil {
		cfg.Seed, cfg.Strategy, cfg.P, cfg.PCTDepth = w.Sim.Seed, w.Sim.Strategy, w.Sim.P, w.Sim.Depth
		cfg.PCTLen = 3000
	}
	if len(w.Sched) > 0 {
		cfg.UseReplay = true
		cfg.Replay = w.Sched
	}
	return cfg
}

// reqKey: outcome of a request without the Allow set (C06 compares status,
// handler, pattern and parameters; Allow accuracy is C04's subject).
func reqKey(o *Obs) string {
	if o.Panic != "" {
		if strings.HasPrefix(o.Panic, "runtime") {
			return "panic(runtime)"
		}
		return "panic(" + o.Panic + ")"
	}
	if o.Zero {
		return "zero-handler"
	}
	return fmt.Sprintf("%d h%d %s pat=%q params=%s mw=%v", o.Status, o.HID, o.Kind, o.Pattern, fmtParams(o.Params), o.Trace)
}

// starKey: OPTIONS * involves no dispatch decision, its Allow set is read at one
// instant inside the request, so the whole answer must be sequentially producible.
func starKey(o *Obs) string { return reqKey(o) + " allow=" + canonSet(o.Allow) }

func routesKey(r map[string][]string) string {
	c := canonRoutes(r)
	ks := make([]string, 0, len(c))
	for k := range c {
		ks = append(ks, k)
	}
	sort.Strings(ks)
	var sb strings.Builder
	for _, k := range ks {
		sb.WriteString(k + "=" + strings.Join(c[k], ",") + ";")
	}
	return sb.String()
}

// perform executes one operation of a CONC world against a router.
func perform(e *Env, r *mux.Router[*Comp], op *Op) (out string) {
	defer func() {
		if p := recover(); p != nil {
			out = "escaped-panic(" + classifyPanic(p) + ")"
		}
	}()
	switch op.K {
	case "req":
		o := Serve(r, *op.Req, nil, nil)
		if op.Req.Path == "*" && op.Req.Method == "OPTIONS" {
			return starKey(&o)
		}
		if (o.Kind == KOptions || o.Kind == K405) && o.Panic == "" && !o.Zero {
			return reqKey(&o) + " allowinv=[" + strings.Join(sortedKeys(setOf(o.Allow)), ",") + "]"
		}
		return reqKey(&o)
	case "routes":
		return routesKey(r.Routes())
	case "url":
		u, err := r.URL(op.B, op.Pattern, op.Params)
		if err != nil {
			return "url-error"
		}
		return "url:" + u
	default:
		if pan := applyAdmin(e, r, op); pan != nil {
			c := classifyPanic(pan)
			if strings.HasPrefix(c, "runtime") {
				return "panic(runtime)"
			}
			return "rejected"
		}
		return "ok"
	}
}

func isMutating(k string) bool { return isAdmin(k) }

// seqModel evaluates operations on sequential replicas (fresh real routers).
type seqModel struct {
	w     *World
	ops   map[int]*Op // global op id -> op
	memo  map[string][2]string
	evals atomic.Int64 // the checker goroutine may still be winding down after a timeout
	// The linearizability search is bounded by a deterministic budget of replica
	// evaluations (not by wall-clock time, which would make the outcome depend on
	// machine load).  Once stopped, Step answers without touching the module under
	// test, so a checker goroutine that is still winding down cannot run module code
	// (and hit yield points) while the next world executes.
	stopped  atomic.Bool
	inflight atomic.Int64
}

const replicaEvalBudget = 30000

func opID(task, idx int) int { return task*1000 + idx }

func (m *seqModel) build(state string) (*Env, *mux.Router[*Comp]) {
	e := NewEnv()
	e.Quiet = true
	r := NewSimRouter(e, m.w.Opts)
	for i := range m.w.Setup {
		applyAdmin(e, r, &m.w.Setup[i])
	}
	if state != "" {
		for _, s := range strings.Split(state, ",") {
			var id int
			fmt.Sscanf(s, "%d", &id)
			perform(e, r, m.ops[id])
		}
	}
	return e, r
}

func (m *seqModel) eval(state string, id int) (out, next string) {
	if m.stopped.Load() {
		return "\x00stopped", state
	}
	m.inflight.Add(1)
	defer m.inflight.Add(-1)
	key := fmt.Sprintf("%s|%d", state, id)
	if v, ok := m.memo[key]; ok {
		return v[0], v[1]
	}
	if m.evals.Add(1) > replicaEvalBudget {
		m.stopped.Store(true)
		return "\x00stopped", state
	}
	e, r := m.build(state)
	op := m.ops[id]
	out = perform(e, r, op)
	next = state
	if isMutating(op.K) {
		// the op becomes part of the state whatever its outcome: a rejected or
		// panicking operation may still have had an effect sequentially
		if state == "" {
			next = fmt.Sprint(id)
		} else {
			next = state + "," + fmt.Sprint(id)
		}
	}
	m.memo[key] = [2]string{out, next}
	return out, next
}

type linInput struct{ ID int }

func checkLinearizable(w *World, logs []opLog, st *Stats) (porcupine.CheckResult, *seqModel) {
	m := &seqModel{w: w, ops: map[int]*Op{}, memo: map[string][2]string{}}
	var ops []porcupine.Operation
	for i := range logs {
		l := &logs[i]
		id := opID(l.Task, l.Idx)
		m.ops[id] = l.Op
		ops = append(ops, porcupine.Operation{ClientId: l.Task, Input: linInput{id}, Call: l.Inv, Output: l.Out, Return: l.Ret})
	}
	model := porcupine.Model{
		Init: func() interface{} { return "" },
		Step: func(state, input, output interface{}) (bool, interface{}) {
			out, next := m.eval(state.(string), input.(linInput).ID)
			return stripInv(out) == stripInv(output.(string)), next
		},
		Equal: func(a, b interface{}) bool { return a.(string) == b.(string) },
	}
	simrt.SetPoolCfg(simrt.PoolCfg{Fresh: 1, Drop: 100})
	res := porcupine.CheckOperationsTimeout(model, ops, 60*time.Second)
	exhausted := m.stopped.Load()
	m.stopped.Store(true) // nothing may evaluate after this point
	for m.inflight.Load() > 0 {
		time.Sleep(time.Millisecond)
	}
	if exhausted && res != porcupine.Ok {
		res = porcupine.Unknown // the budget ended the search: inconclusive, never a violation
	}
	return res, m
}

func stripInv(s string) string {
	if i := strings.Index(s, " allowinv="); i >= 0 {
		return s[:i]
	}
	return s
}

func describeHistory(logs []opLog) string {
	s := append([]opLog{}, logs...)
	sort.Slice(s, func(i, j int) bool { return s[i].Inv < s[j].Inv })
	var sb strings.Builder
	for _, l := range s {
		fmt.Fprintf(&sb, "\n  [%d..%d] task%d %s -> %s", l.Inv, l.Ret, l.Task, l.Op, l.Out)
	}
	return sb.String()
}

// runTasks executes w.Tasks under the simulator; body performs one op.
func runTasks(w *World, body func(task int, op *Op) string) (logs []opLog, sw *simrt.World) {
	sw = simrt.NewWorld(simConfig(w))
	perTask := make([][]opLog, len(w.Tasks))
	for ti := range w.Tasks {
		ti := ti
		sw.Go(fmt.Sprintf("task%d", ti), func() {
			for i := range w.Tasks[ti] {
				op := &w.Tasks[ti][i]
				simrt.Point(simrt.KOp)
				inv := simrt.Stamp()
				simrt.InOp(true)
				out := body(ti, op)
				simrt.InOp(false)
				ret := simrt.Stamp()
				perTask[ti] = append(perTask[ti], opLog{Task: ti, Idx: i, Op: op, Inv: inv, Ret: ret, Out: out})
			}
		})
	}
	sw.Run()
	for _, l := range perTask {
		logs = append(logs, l...)
	}
	return logs, sw
}

func foldLogs(h uint64, logs []opLog) uint64 {
	for _, l := range logs {
		h = hashStr(hashU(h, uint64(l.Inv)<<20^uint64(l.Ret)), l.Out)
	}
	return h
}

// ---- C06 -------------------------------------------------------------------------------------

var c06Untouched = []string{"/posts/author", "/posts/{id}/x", "/u/{uid:\\d+}", "/s/a", "/s/b", "/s/c", "/s/d", "/s/e", "/s/{name}", "/posts/{id}-{page:digit}.html"}
var c06Toggle = []string{"/posts/abc", "/posts/a", "/posts/{id}", "/posts/auth", "/posts/author/x", "/u/{uid:\\d+}/p", "/s/f", "/s/g", "/s/ab", "/s/{name}/y", "/t/{k}", "/t/1", "/posts/{id}/xy", "/posts/{id}-x"}

func genC06(r *Rng, idx int, tier string) *World {
	w := &World{Variant: "a"}
	w.Opts = RouterOpts{Name: "r", Lock: true, Interceptors: []string{"digit"}, Trace: r.Pct(20)}
	w.Pool = genPoolCfg(r)
	w.Sim = genSim(r)
	un := append([]string{}, c06Untouched...)
	tgAll := append([]string{}, c06Toggle...)
	if r.Pct(45) {
		// generated pool: arbitrary tree shapes; GenPool never puts two patterns that differ only in
		// parameter names into one pool, so Handle outcomes do not hinge on check-then-act atomicity
		pool := GenPool(r, r.Range(8, 16), w.Opts.Interceptors)
		shuffle(r, pool)
		k := len(pool) / 2
		un, tgAll = append([]string{}, pool[:k]...), append([]string{}, pool[k:]...)
		for len(un) < 7 {
			un = append(un, un...)
		}
	}
	shuffle(r, un)
	nU := r.Range(2, 7)
	fullClean := r.Pct(8)
	if fullClean {
		nU = 0
	}
	hid := 100
	var upats []*Pattern
	seenU := map[string]bool{}
	for _, p := range un[:nU] {
		if seenU[p] {
			continue
		}
		seenU[p] = true
		hid++
		w.Setup = append(w.Setup, Op{K: "handle", Pattern: p, HID: hid, Methods: []string{"GET"}})
		pp, _ := ParsePattern(p, w.Opts.Interceptors)
		upats = append(upats, pp)
	}
	tg := tgAll
	shuffle(r, tg)
	if n := r.Range(2, 5); n < len(tg) {
		tg = tg[:n]
	}
	var tpats []*Pattern
	for _, p := range tg {
		pp, _ := ParsePattern(p, w.Opts.Interceptors)
		tpats = append(tpats, pp)
		if r.Pct(35) {
			hid++
			w.Setup = append(w.Setup, Op{K: "handle", Pattern: p, HID: hid, Methods: []string{"GET"}})
		}
	}
	// in some worlds two writers race to register patterns that differ only in parameter names:
	// sequentially the second registration is always refused, so both being accepted (and both
	// showing up in Routes()) is a response no sequential router could produce
	var twins []string
	if r.Pct(15) {
		for _, p := range tg {
			if t := renamePattern(r, p, w.Opts.Interceptors); t != "" {
				twins = append(twins, t)
			}
		}
	}
	nW, nR := r.Range(1, 3), r.Range(1, 4)
	budget := 16
	if tier == "thorough" && r.Pct(50) {
		nW, nR, budget = r.Range(2, 3), r.Range(2, 5), 22 // writers stay <= 3: the linearizability search grows with the number of concurrent mutations
	}
	for t := 0; t < nW; t++ {
		var ops []Op
		n := r.Range(1, 4)
		for i := 0; i < n && budget > 0; i++ {
			budget--
			p := pick(r, tg)
			if len(twins) > 0 && r.Pct(40) {
				p = pick(r, twins)
			}
			op := Op{T: t, Pattern: p}
			switch k := r.Intn(10); {
			case k < 5:
				op.K = "handle"
				op.HID = (t+1)*1000 + i
				op.Methods = []string{pick(r, []string{"GET", "GET", "POST", "PUT", "DELETE", "PATCH"})}
				if r.Pct(25) { // registration-level middlewares: each registration must get exactly its own
					op.MW = []string{fmt.Sprintf("R%d", op.HID)}
					if r.Pct(40) {
						op.MW = append(op.MW, fmt.Sprintf("S%d", op.HID))
					}
				}
			case k < 7:
				op.K = "remove"
			case k < 9:
				op.K = "remove"
				op.Methods = []string{pick(r, []string{"GET", "POST", "PUT", "DELETE", "PATCH"})}
			default:
				if fullClean {
					op.K, op.Pattern = "clean", ""
				} else {
					tp := pick(r, tg)
					op.K, op.Pattern = "pclean", pick(r, []string{"/t/", "/posts/a", "/s/f", "/posts/{id}-x", tp, tp[:r.Range(1, len(tp))]})
					for _, u := range un[:nU] { // never clean an untouched route away
						if strings.HasPrefix(u, op.Pattern) {
							op.K, op.Pattern = "remove", tp
						}
					}
				}
			}
			ops = append(ops, op)
		}
		w.Tasks = append(w.Tasks, ops)
	}
	all := append(append([]*Pattern{}, upats...), tpats...)
	for t := 0; t < nR; t++ {
		var ops []Op
		n := r.Range(1, 4)
		for i := 0; i < n && budget > 0; i++ {
			budget--
			op := Op{T: nW + t}
			switch k := r.Intn(10); {
			case k < 7:
				op.K = "req"
				p := pick(r, all)
				path, _ := p.Witness(r)
				op.Req = &Req{Method: pick(r, []string{"GET", "GET", "GET", "POST", "HEAD", "OPTIONS", "OPTIONS", "PUT", "BOGUS"}), Path: path}
				if r.Pct(12) {
					op.Req = &Req{Method: "OPTIONS", Path: "*"}
				}
			case k < 8:
				op.K = "routes"
			default:
				op.K = "url"
				p := pick(r, all)
				op.Pattern = p.Raw
				op.B = r.Pct(60)
				_, op.Params = p.Witness(r)
				if len(op.Params) == 0 {
					op.Params = map[string]string{"unused": "1"}
				}
			}
			ops = append(ops, op)
		}
		w.Tasks = append(w.Tasks, ops)
	}
	return w
}

func execC06(w *World, st *Stats) (*Violation, RunInfo) {
	simrt.SetPoolCfg(w.Pool)
	env := NewEnv()
	env.Quiet = true
	r := NewSimRouter(env, w.Opts)
	for i := range w.Setup {
		applyAdmin(env, r, &w.Setup[i])
	}
	logs, sw := runTasks(w, func(task int, op *Op) string { return perform(env, r, op) })
	info := RunInfo{Shape: hashU(worldShape(w), sw.Hash()), Interleave: sw.Hash(), Events: sw.Steps(), Nontrivial: sw.Preempts > 0}
	info.Hash = foldLogs(sw.Hash(), logs)
	info.Sched = sw.Recorded()
	st.CN("preempt", sw.Preempts)
	st.CN("switches", sw.Switches)
	st.CN("parked_on_lock", sw.ParkedInLock)
	st.C(fmt.Sprintf("strategy_%d", w.Sim.Strategy))
	mk := func(oracle, sig, detail string) *Violation {
		return &Violation{Prop: w.Prop, Oracle: oracle, Sig: sig, Detail: detail}
	}
	if sw.WasAborted() {
		if sw.AbortReason == "deadlock" {
			return mk("deadlock", "deadlock", "no runnable task while tasks are unfinished (all parked on locks)"+describeHistory(logs)), info
		}
		st.Inconclusive["cap"]++
		return nil, info
	}
	for _, t := range sw.Tasks() {
		if t.Panic != nil {
			return mk("task-panic", "task-panic", fmt.Sprintf("task %s died: %v", t.Name, t.Panic)), info
		}
	}
	// an invariant of every sequential state: a non-empty Allow header of an OPTIONS/405 answer lists
	// OPTIONS, and TRACE when a TRACE handler is configured (after a concurrent removal it may be empty)
	for _, l := range logs {
		if l.Op.K != "req" || !strings.Contains(l.Out, " allowinv=") {
			continue
		}
		set := setOf(strings.TrimSuffix(strings.SplitN(l.Out, " allowinv=[", 2)[1], "]"))
		if len(set) == 0 {
			continue
		}
		if !set["OPTIONS"] || (w.Opts.Trace && !set["TRACE"]) {
			return mk("allow-invariant", "allow-partial", fmt.Sprintf("%s answered %s: an Allow set that no sequential state of this router has (trace=%v)%s", l.Op.Req, l.Out, w.Opts.Trace, describeHistory(logs))), info
		}
	}
	res, m := checkLinearizable(w, logs, st)
	st.CN("replica_evals", m.evals.Load())
	switch res {
	case porcupine.Illegal:
		return mk("linearizability", "not-linearizable", "no sequential order of the operations, consistent with their real-time order, produces these responses on a sequential replica:"+describeHistory(logs)), info
	case porcupine.Unknown:
		st.Inconclusive["porcupine_unknown"]++
	default:
		st.C("linearizable_histories")
	}
	return nil, info
}

func init() {
	register(&PropImpl{ID: "C06", Race: true, Gen: genC06, Exec: execC06})
}
