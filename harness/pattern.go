package main

import (
	"regexp"
	"strings"
	"sync"
)

// Independent pattern parser: nothing here imports mux's internal packages.

type PKind int

const (
	PLit PKind = iota
	PInterceptor
	PRegexp
	PNamed
)

func (k PKind) String() string { return [...]string{"lit", "interceptor", "regexp", "named"}[k] }

type Token struct {
	Kind   PKind
	Text   string // literal text, or the raw {…} token
	Name   string
	Ignore bool
	Rule   string
}

type Pattern struct {
	Raw    string
	Tokens []Token
}

var (
	reCacheMu sync.Mutex
	reCache   = map[string]*regexp.Regexp{}
)

func compileCached(expr string) *regexp.Regexp {
	reCacheMu.Lock()
	defer reCacheMu.Unlock()
	if r, ok := reCache[expr]; ok {
		return r
	}
	r, err := regexp.Compile(expr)
	if err != nil {
		r = nil
	}
	reCache[expr] = r
	return r
}

// PatternStatus classifies a pattern string by the documented syntax only:
// +1 well-formed, -1 one of the documented syntax errors (empty string, empty
// name, adjacent parameters, duplicate names, uncompilable regexp), 0 anything
// the documentation does not settle (unbalanced braces and the like).
func PatternStatus(raw string, ics []string) int {
	if raw == "" {
		return -1
	}
	if _, ok := ParsePattern(raw, ics); ok {
		return 1
	}
	if strings.Contains(raw, "{-}") || strings.Contains(raw, "{-:") {
		return 0 // a '-' flag without a name: the documentation does not say
	}
	// balanced and brace-free literals?  then the failure is a documented error
	depth := 0
	for i := 0; i < len(raw); i++ {
		switch raw[i] {
		case '{':
			depth++
			if depth > 1 {
				return 0
			}
		case '}':
			depth--
			if depth < 0 {
				return 0
			}
		}
	}
	if depth != 0 {
		return 0
	}
	return -1
}

// ParsePattern tokenises a well-formed pattern. ics is the interceptor set of
// the router. ok=false for anything this parser does not consider well-formed.
func ParsePattern(raw string, ics []string) (*Pattern, bool) {
	p := &Pattern{Raw: raw}
	if raw == "" {
		return nil, false
	}
	names := map[string]bool{}
	i := 0
	lastParam := false
	for i < len(raw) {
		if raw[i] == '{' {
			j := strings.IndexByte(raw[i:], '}')
			if j < 0 {
				return nil, false
			}
			tok := raw[i : i+j+1]
			inner := tok[1 : len(tok)-1]
			if strings.ContainsAny(inner, "{") || inner == "" || lastParam {
				return nil, false
			}
			name, rule := inner, ""
			if k := strings.IndexByte(inner, ':'); k >= 0 {
				name, rule = inner[:k], inner[k+1:]
			}
			t := Token{Text: tok, Name: name, Rule: rule}
			if strings.HasPrefix(name, "-") {
				t.Ignore = true
				t.Name = name[1:]
			}
			if t.Name == "" || names[t.Name] {
				return nil, false
			}
			names[t.Name] = true
			switch {
			case rule == "":
				t.Kind = PNamed
			case contains(ics, rule):
				t.Kind = PInterceptor
			default:
				t.Kind = PRegexp
				if compileCached("^(?:"+rule+")$") == nil {
					return nil, false
				}
			}
			p.Tokens = append(p.Tokens, t)
			i += j + 1
			lastParam = true
			continue
		}
		j := strings.IndexByte(raw[i:], '{')
		end := len(raw)
		if j >= 0 {
			end = i + j
		}
		lit := raw[i:end]
		if strings.ContainsAny(lit, "}") {
			return nil, false
		}
		p.Tokens = append(p.Tokens, Token{Kind: PLit, Text: lit})
		i = end
		lastParam = false
	}
	return p, true
}

func contains(s []string, x string) bool {
	for _, v := range s {
		if v == x {
			return true
		}
	}
	return false
}

// Accepts reports whether val satisfies the constraint of a parameter token
// over its whole length.
func (t *Token) Accepts(val string) bool {
	switch t.Kind {
	case PNamed:
		return true
	case PInterceptor:
		return interceptorFunc(t.Rule)(val)
	case PRegexp:
		re := compileCached("^(?:" + t.Rule + ")$")
		return re != nil && re.MatchString(val)
	}
	return false
}

// CapturingNames lists the non '-' parameter names.
func (p *Pattern) CapturingNames() []string {
	var ns []string
	for _, t := range p.Tokens {
		if t.Kind != PLit && !t.Ignore {
			ns = append(ns, t.Name)
		}
	}
	return ns
}

// NormalForm is the pattern with parameter names (and the '-' flag) erased:
// two patterns with the same normal form are "identical up to parameter names".
func (p *Pattern) NormalForm() string {
	var sb strings.Builder
	for _, t := range p.Tokens {
		if t.Kind == PLit {
			sb.WriteString(t.Text)
		} else {
			sb.WriteString("{:" + t.Rule + "}")
		}
	}
	return sb.String()
}

// MatchesWith reports whether path equals the pattern with every capturing
// parameter replaced by params[name] and every '-' parameter by some text that
// satisfies its constraint (literal text byte for byte, every value accepted).
func (p *Pattern) MatchesWith(path string, params map[string]string) bool {
	return p.matchFrom(0, path, params)
}

func (p *Pattern) matchFrom(ti int, rest string, params map[string]string) bool {
	if ti == len(p.Tokens) {
		return rest == ""
	}
	t := &p.Tokens[ti]
	if t.Kind == PLit {
		if !strings.HasPrefix(rest, t.Text) {
			return false
		}
		return p.matchFrom(ti+1, rest[len(t.Text):], params)
	}
	if !t.Ignore {
		v, ok := params[t.Name]
		if !ok || !strings.HasPrefix(rest, v) || !t.Accepts(v) {
			return false
		}
		return p.matchFrom(ti+1, rest[len(v):], params)
	}
	for n := 0; n <= len(rest); n++ {
		if t.Accepts(rest[:n]) && p.matchFrom(ti+1, rest[n:], params) {
			return true
		}
	}
	return false
}

// MatchesSome reports whether the path matches the pattern for some
// assignment of values.
func (p *Pattern) MatchesSome(path string) bool { return p.someFrom(0, path) }

func (p *Pattern) someFrom(ti int, rest string) bool {
	if ti == len(p.Tokens) {
		return rest == ""
	}
	t := &p.Tokens[ti]
	if t.Kind == PLit {
		return strings.HasPrefix(rest, t.Text) && p.someFrom(ti+1, rest[len(t.Text):])
	}
	for n := 0; n <= len(rest); n++ {
		if t.Accepts(rest[:n]) && p.someFrom(ti+1, rest[n:]) {
			return true
		}
	}
	return false
}

// Fill builds a path from the pattern using vals (by parameter name).
func (p *Pattern) Fill(vals map[string]string) string {
	var sb strings.Builder
	for _, t := range p.Tokens {
		if t.Kind == PLit {
			sb.WriteString(t.Text)
		} else {
			sb.WriteString(vals[t.Name])
		}
	}
	return sb.String()
}

// SimpleValue returns a "simple" value for a parameter token: it satisfies the
// constraint and uses only bytes that never occur in generated literal text
// (digits 0-9 and the letters q w x y z k j v are reserved for values).
func SimpleValue(t *Token, r *Rng) string {
	digits := "123456789"
	letters := "qwxyzkjv"
	gen := func(alpha string, n int) string {
		b := make([]byte, n)
		for i := range b {
			b[i] = alpha[r.Intn(len(alpha))]
		}
		return string(b)
	}
	cands := []string{gen(digits, r.Range(1, 3)), gen(letters, r.Range(1, 3)), gen(digits+letters, r.Range(2, 4))}
	if t.Rule == "min5" {
		cands = append(cands, gen(letters, 6), gen(digits, 5))
	}
	if strings.HasSuffix(t.Rule, "+a") {
		cands = append(cands, gen(digits, r.Range(1, 3))+"a")
	}
	if strings.Contains(t.Rule, "|") { // alternation of literal words over the value alphabet
		alts := strings.Split(t.Rule, "|")
		cands = append(cands, alts[r.Intn(len(alts))])
	}
	shuffle(r, cands)
	for _, c := range cands {
		if t.Accepts(c) {
			return c
		}
	}
	for n := 1; n <= 4; n++ {
		for _, a := range []string{digits, letters, "abcdef"} {
			if c := gen(a, n); t.Accepts(c) {
				return c
			}
		}
	}
	return "1"
}

// Witness builds a path for the pattern with simple values; the values used
// are returned for the capturing parameters.
func (p *Pattern) Witness(r *Rng) (string, map[string]string) {
	vals := map[string]string{}
	capt := map[string]string{}
	for i := range p.Tokens {
		t := &p.Tokens[i]
		if t.Kind == PLit {
			continue
		}
		v := SimpleValue(t, r)
		vals[t.Name] = v
		if !t.Ignore {
			capt[t.Name] = v
		}
	}
	return p.Fill(vals), capt
}
