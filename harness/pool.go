package main

import (
	"fmt"
	"sort"
	"strconv"
	"strings"

	"github.com/issue9/mux/v9/simrt"
	"github.com/issue9/mux/v9/types"
)

// POOL world (C20): tasks hammer types.NewContext/Set/Delete/Reset/Destroy on
// their own contexts, interleaved at statement level under -race, while the
// simulated allocator hands pooled contexts out adversarially (newest, oldest,
// random, fresh, drop).  Oracle: per-context map model + strconv.

var valueDict = []string{"0", "1", "-1", "+5", "007", "9223372036854775807", "9223372036854775808", "-9223372036854775808", "-9223372036854775809",
	"18446744073709551615", "18446744073709551616", "1e3", "1.5", "NaN", "Inf", "-Inf", "+Inf", "nan", "0x10", "1_000", "", "true", "false", "T", "F", "TRUE", "t", "yes",
	"\xff", "١٢٣", "  1", "1 ", "3.4028235e+39", "1e400", "0b101", "abc", "-0", ".5", "5.", "1e-400", "0x1p-2", "infinity", "True", "fAlse",
	"-", "+", "+-1", "--1", "-+1", "1-", "1+", "999999999999999999", "1000000000000000000", "-999999999999999999", "+999999999999999999", "-1000000000000000000",
	"0000000000000000000001", "-00", "+0", "\uff11\uff12", "1\x00", "0_1", "0o17", "-0x8000000000000000", "+.5", "-.", ".", "e5", "1e", "0e0", "1E+2"}

// genValue: mostly the dictionary, otherwise number-like text of any length up to 21 (sign characters
// alone, signs in the middle, 18/19/20-digit values around the int64 and uint64 limits)
func genValue(r *Rng) string {
	if r.Pct(70) {
		return pick(r, valueDict)
	}
	n := r.Intn(22)
	b := make([]byte, 0, n)
	for i := 0; i < n; i++ {
		switch k := r.Intn(100); {
		case k < 8 || (i == 0 && k < 40):
			b = append(b, "+-"[r.Intn(2)])
		case k < 12:
			b = append(b, "._eExXb "[r.Intn(8)])
		case k < 30:
			b = append(b, "09"[r.Intn(2)])
		default:
			b = append(b, byte('0'+r.Intn(10)))
		}
	}
	return string(b)
}
var keyDict = []string{"id", "page", "", "a", "b", "k\x00", "名", "id2", "x-y", "ID"}

type fakeNode struct{}

func (fakeNode) Pattern() string     { return "/fake" }
func (fakeNode) Methods() []string   { return nil }
func (fakeNode) AllowHeader() string { return "" }

func genC20(r *Rng, idx int, tier string) *World {
	w := &World{}
	w.Pool = genPoolCfg(r)
	w.Pool.Fresh, w.Pool.Newest, w.Pool.Oldest, w.Pool.Rand = pick(r, []int{0, 1}), 3, 1, 2
	w.Pool.Drop = pick(r, []int{0, 10, 25})
	w.Sim = genSim(r)
	nT := r.Range(1, 4)
	for t := 0; t < nT; t++ {
		var ops []Op
		live := []int{}
		slot := 0
		n := r.Range(4, 14)
		for i := 0; i < n; i++ {
			switch k := r.Intn(100); {
			case k < 22 || len(live) == 0:
				ops = append(ops, Op{T: t, K: "new", N: slot})
				live = append(live, slot)
				slot++
			case k < 50:
				ops = append(ops, Op{T: t, K: "set", N: pick(r, live), Name: pick(r, keyDict), Args: []string{genValue(r)}})
			case k < 60:
				ops = append(ops, Op{T: t, K: "del", N: pick(r, live), Name: pick(r, keyDict)})
			case k < 66:
				ops = append(ops, Op{T: t, K: "reset", N: pick(r, live)})
			case k < 69:
				ops = append(ops, Op{T: t, K: "rangedel", N: pick(r, live)}) // Range whose callback deletes entries
			case k < 72:
				ops = append(ops, Op{T: t, K: "many", N: pick(r, live), B: r.Pct(50)}) // >30 params
			case k < 88:
				j := r.Intn(len(live))
				op := Op{T: t, K: "destroy", N: live[j], B: r.Pct(70)}
				if nT == 1 && r.Pct(30) {
					// single-goroutine worlds only: the caller keeps its reference and writes through it after
					// Destroy (legal Go, no race) - the next owner must still start empty
					op.Args = []string{"stale"}
				}
				ops = append(ops, op)
				live = append(live[:j], live[j+1:]...)
			case k < 90:
				ops = append(ops, Op{T: t, K: "nildestroy"})
			default:
				ops = append(ops, Op{T: t, K: "check", N: pick(r, live)})
			}
		}
		w.Tasks = append(w.Tasks, ops)
	}
	return w
}

// checkContext compares every accessor with the map model and strconv.
func checkContext(ctx *types.Context, m map[string]string) string {
	if ctx.Count() != len(m) {
		return fmt.Sprintf("Count()=%d, model has %d (%s)", ctx.Count(), len(m), fmtParams(m))
	}
	got := map[string]string{}
	n := 0
	ctx.Range(func(k, v string) { got[k] = v; n++ })
	if n != len(m) || fmtParams(got) != fmtParams(m) {
		return fmt.Sprintf("Range yields %s (%d calls), model %s", fmtParams(got), n, fmtParams(m))
	}
	keys := append([]string{}, keyDict...)
	for k := range m {
		keys = append(keys, k)
	}
	sort.Strings(keys)
	for _, k := range keys {
		want, has := m[k]
		v, ok := ctx.Get(k)
		if ok != has || v != want {
			return fmt.Sprintf("Get(%q)=(%q,%v), model (%q,%v)", k, v, ok, want, has)
		}
		if ctx.Exists(k) != has {
			return fmt.Sprintf("Exists(%q)=%v, model %v", k, !has, has)
		}
		s, err := ctx.String(k)
		if has && (err != nil || s != want) || !has && err != types.ErrParamNotExists() {
			return fmt.Sprintf("String(%q)=(%q,%v)", k, s, err)
		}
		if d := ctx.MustString(k, "dflt"); has && d != want || !has && d != "dflt" {
			return fmt.Sprintf("MustString(%q)=%q", k, d)
		}
		// Int
		iv, ierr := ctx.Int(k)
		wi, wierr := strconv.ParseInt(want, 10, 64)
		if !has {
			if ierr != types.ErrParamNotExists() || iv != 0 {
				return fmt.Sprintf("Int(%q) on an absent key = (%d,%v)", k, iv, ierr)
			}
		} else if iv != wi || fmt.Sprint(ierr) != fmt.Sprint(wierr) {
			return fmt.Sprintf("Int(%q)=(%d,%v), strconv.ParseInt(%q)=(%d,%v)", k, iv, ierr, want, wi, wierr)
		}
		if mi := ctx.MustInt(k, -77); (ierr == nil && mi != iv) || (ierr != nil && mi != -77) {
			return fmt.Sprintf("MustInt(%q,-77)=%d while Int gives (%d,%v)", k, mi, iv, ierr)
		}
		// Uint
		uv, uerr := ctx.Uint(k)
		wu, wuerr := strconv.ParseUint(want, 10, 64)
		if !has {
			if uerr != types.ErrParamNotExists() || uv != 0 {
				return fmt.Sprintf("Uint(%q) on an absent key = (%d,%v)", k, uv, uerr)
			}
		} else if uv != wu || fmt.Sprint(uerr) != fmt.Sprint(wuerr) {
			return fmt.Sprintf("Uint(%q)=(%d,%v), strconv.ParseUint(%q)=(%d,%v)", k, uv, uerr, want, wu, wuerr)
		}
		if mu := ctx.MustUint(k, 77); (uerr == nil && mu != uv) || (uerr != nil && mu != 77) {
			return fmt.Sprintf("MustUint(%q,77)=%d while Uint gives (%d,%v)", k, mu, uv, uerr)
		}
		// Bool
		bv, berr := ctx.Bool(k)
		wb, wberr := strconv.ParseBool(want)
		if !has {
			if berr != types.ErrParamNotExists() || bv {
				return fmt.Sprintf("Bool(%q) on an absent key = (%v,%v)", k, bv, berr)
			}
		} else if bv != wb || fmt.Sprint(berr) != fmt.Sprint(wberr) {
			return fmt.Sprintf("Bool(%q)=(%v,%v), strconv.ParseBool(%q)=(%v,%v)", k, bv, berr, want, wb, wberr)
		}
		for _, def := range []bool{true, false} {
			if mb := ctx.MustBool(k, def); (berr == nil && mb != bv) || (berr != nil && mb != def) {
				return fmt.Sprintf("MustBool(%q,%v)=%v while Bool gives (%v,%v)", k, def, mb, bv, berr)
			}
		}
		// Float
		fv, ferr := ctx.Float(k)
		wf, wferr := strconv.ParseFloat(want, 64)
		if !has {
			if ferr != types.ErrParamNotExists() || fv != 0 {
				return fmt.Sprintf("Float(%q) on an absent key = (%v,%v)", k, fv, ferr)
			}
		} else if strconv.FormatFloat(fv, 'g', -1, 64) != strconv.FormatFloat(wf, 'g', -1, 64) || fmt.Sprint(ferr) != fmt.Sprint(wferr) {
			return fmt.Sprintf("Float(%q)=(%v,%v), strconv.ParseFloat(%q)=(%v,%v)", k, fv, ferr, want, wf, wferr)
		}
		if mf := ctx.MustFloat(k, -7.5); (ferr == nil && strconv.FormatFloat(mf, 'g', -1, 64) != strconv.FormatFloat(fv, 'g', -1, 64)) || (ferr != nil && mf != -7.5) {
			return fmt.Sprintf("MustFloat(%q,-7.5)=%v while Float gives (%v,%v)", k, mf, fv, ferr)
		}
	}
	return ""
}

func execC20(w *World, st *Stats) (*Violation, RunInfo) {
	simrt.SetPoolCfg(w.Pool)
	type slotState struct {
		ctx *types.Context
		m   map[string]string
	}
	states := make([]map[int]*slotState, len(w.Tasks))
	for i := range states {
		states[i] = map[int]*slotState{}
	}
	logs, sw := runTasks(w, func(task int, op *Op) string {
		ss := states[task]
		s := ss[op.N]
		if s == nil && op.K != "new" && op.K != "nildestroy" {
			return "skip" // shrunk world: the slot's creation was dropped
		}
		switch op.K {
		case "new":
			ctx := types.NewContext()
			ss[op.N] = &slotState{ctx: ctx, m: map[string]string{}}
			n := 0
			ctx.Range(func(string, string) { n++ })
			if ctx.Count() != 0 || n != 0 || ctx.Path != "" || ctx.Node() != nil || ctx.RouterName() != "" {
				return fmt.Sprintf("viol:not-empty:NewContext returned a context with Count=%d Range=%d Path=%q Node=%v RouterName=%q", ctx.Count(), n, ctx.Path, ctx.Node(), ctx.RouterName())
			}
			if d := checkContext(ctx, map[string]string{}); d != "" {
				return "viol:not-empty:fresh context: " + d
			}
		case "set":
			s.ctx.Set(op.Name, op.Args[0])
			s.m[op.Name] = op.Args[0]
		case "del":
			s.ctx.Delete(op.Name)
			delete(s.m, op.Name)
		case "reset":
			s.ctx.Reset()
			s.m = map[string]string{}
			if s.ctx.Path != "" || s.ctx.Node() != nil || s.ctx.RouterName() != "" {
				return "viol:reset:Reset left Path/Node/RouterName behind"
			}
		case "rangedel":
			// as on a map: an entry deleted before the iteration reaches it is not produced, and every
			// produced pair is one the accessors agree on at that moment
			var bad string
			first := true
			var victims []string
			for k := range s.m {
				victims = append(victims, k)
			}
			sort.Strings(victims)
			if len(victims) > 0 {
				victims = victims[1:]
			}
			s.ctx.Range(func(k, v string) {
				if got, ok := s.ctx.Get(k); !ok || got != v || !s.ctx.Exists(k) {
					bad = fmt.Sprintf("Range produced (%q,%q) but Get/Exists say (%q,%v)", k, v, got, ok)
				}
				if first {
					// delete everything but the smallest key (a set fixed before the iteration started, so the
					// outcome does not depend on map order; the entry being visited may be among them)
					first = false
					for _, other := range victims {
						s.ctx.Delete(other)
						delete(s.m, other)
					}
				}
			})
			if bad != "" {
				return "viol:accessors:" + bad
			}
		case "many":
			for i := 0; i < 33; i++ {
				k := "k" + strconv.Itoa(i)
				s.ctx.Set(k, strconv.Itoa(i))
				s.m[k] = strconv.Itoa(i)
			}
		case "destroy":
			if op.B { // dirty it first: the next owner must still start empty
				s.ctx.Path = "/dirty"
				s.ctx.SetRouterName("dirty")
				s.ctx.SetNode(fakeNode{})
				s.ctx.Set("dirty", "1")
			}
			s.ctx.Destroy()
			if len(op.Args) > 0 && op.Args[0] == "stale" {
				s.ctx.Set("stale", "1")
				s.ctx.Path = "/stale"
				s.ctx.SetRouterName("stale")
			}
			delete(ss, op.N)
			return "ok"
		case "nildestroy":
			var c *types.Context
			c.Destroy()
			return "ok"
		}
		if s = ss[op.N]; s != nil {
			simrt.Point(simrt.KUser)
			if d := checkContext(s.ctx, s.m); d != "" {
				return "viol:accessors:" + d
			}
		}
		return "ok"
	})
	info := RunInfo{Shape: hashU(worldShape(w), sw.Hash()), Interleave: sw.Hash(), Events: sw.Steps(), Nontrivial: sw.Preempts > 0 || len(w.Tasks) == 1, Sched: sw.Recorded()}
	info.Hash = foldLogs(sw.Hash(), logs)
	st.CN("preempt", sw.Preempts)
	st.C(fmt.Sprintf("strategy_%d", w.Sim.Strategy))
	if sw.WasAborted() {
		st.Inconclusive[sw.AbortReason]++
		return nil, info
	}
	for _, t := range sw.Tasks() {
		if t.Panic != nil {
			return &Violation{Prop: "C20", Oracle: "no-panic", Sig: "task-panic", Detail: fmt.Sprintf("task %s died: %v", t.Name, t.Panic)}, info
		}
	}
	for _, l := range logs {
		st.C("op_" + l.Op.K)
		if strings.HasPrefix(l.Out, "viol:") {
			parts := strings.SplitN(l.Out, ":", 3)
			return &Violation{Prop: "C20", Oracle: parts[1], Sig: parts[1], Detail: fmt.Sprintf("task %d %s: %s", l.Task, l.Op, parts[2])}, info
		}
		if strings.HasPrefix(l.Out, "escaped") {
			return &Violation{Prop: "C20", Oracle: "no-panic", Sig: "op-panic", Detail: fmt.Sprintf("task %d %s: %s", l.Task, l.Op, l.Out)}, info
		}
	}
	return nil, info
}

func init() {
	register(&PropImpl{ID: "C20", Race: true, Gen: genC20, Exec: execC20})
}
