package main

import (
	"encoding/json"
	"fmt"
	"sort"
	"strings"

	mux "github.com/issue9/mux/v9"
	"github.com/issue9/mux/v9/simrt"
)

// Op is one operation of a world (JSON: replay files are lists of these).
type Op struct {
	T       int          `json:"t"`           // issuing task
	K       string       `json:"k"`           // kind
	Pattern string       `json:"pat,omitempty"`
	Methods []string     `json:"ms,omitempty"`
	HID     int          `json:"hid,omitempty"`
	MW      []string     `json:"mw,omitempty"`
	Via     string       `json:"via,omitempty"`
	Req     *Req         `json:"req,omitempty"`
	Script  []WOp        `json:"script,omitempty"`
	Faults  []*FaultSpec `json:"faults,omitempty"`
	Name    string       `json:"name,omitempty"`
	Args    []string     `json:"args,omitempty"`
	Params  map[string]string `json:"params,omitempty"`
	N       int          `json:"n,omitempty"`
	B       bool         `json:"b,omitempty"`
}

func (o Op) String() string {
	b, _ := json.Marshal(o)
	return string(b)
}

// SimCfg is the scheduling part of a goroutine world.
type SimCfg struct {
	Strategy int    `json:"strategy"`
	P        int    `json:"p,omitempty"`
	Depth    int    `json:"depth,omitempty"`
	Seed     uint64 `json:"seed"`
}

type World struct {
	Prop    string         `json:"prop"`
	Variant string         `json:"variant,omitempty"`
	Seed    uint64         `json:"seed"`
	Idx     int            `json:"idx"`
	Opts    RouterOpts     `json:"opts"`
	Routers []RouterOpts   `json:"routers,omitempty"`
	Setup   []Op           `json:"setup,omitempty"`
	Ops     []Op           `json:"ops,omitempty"`   // op-atomic worlds: already linearised
	Tasks   [][]Op         `json:"tasks,omitempty"` // goroutine worlds
	Sim     *SimCfg        `json:"sim,omitempty"`
	Sched   []simrt.Switch `json:"sched,omitempty"` // explicit schedule (replay)
	Pool    simrt.PoolCfg  `json:"pool"`
	Extra   map[string]string `json:"extra,omitempty"`
}

type Violation struct {
	Prop   string `json:"property"`
	Oracle string `json:"oracle"`
	Sig    string `json:"signature"` // stable class used for known-findings and minimisation
	Detail string `json:"detail"`
	Step   int    `json:"step"`
}

func (v *Violation) String() string {
	return fmt.Sprintf("property=%s oracle=%s sig=%s step=%d: %s", v.Prop, v.Oracle, v.Sig, v.Step, v.Detail)
}

// Stats accumulated by a worker over its worlds.
type Stats struct {
	Worlds       int64            `json:"worlds"`
	Nontrivial   int64            `json:"nontrivial"`
	Events       int64            `json:"sim_events"`
	Counters     map[string]int64 `json:"counters"`
	Distinct     map[uint64]bool  `json:"-"`
	DistinctList []uint64         `json:"distinct"`
	Interleave   map[uint64]bool  `json:"-"`
	InterleaveList []uint64       `json:"interleavings"`
	Samples      []json.RawMessage `json:"samples"`
	Inconclusive map[string]int64 `json:"inconclusive"`
	Rechecks     int64            `json:"determinism_rechecks"`
}

func NewStats() *Stats {
	return &Stats{Counters: map[string]int64{}, Distinct: map[uint64]bool{}, Interleave: map[uint64]bool{}, Inconclusive: map[string]int64{}}
}

func (s *Stats) C(name string)            { s.Counters[name]++ }
func (s *Stats) CN(name string, n int64)  { s.Counters[name] += n }

// RunInfo is what one execution reports besides a violation.
type RunInfo struct {
	Nontrivial bool
	Shape      uint64 // hash of world shape + schedule signature + fault set
	Interleave uint64 // hash of the switch sequence (0 = none)
	Events     int64
	Hash       uint64 // full event/observation hash for determinism re-checks
	Sched      []simrt.Switch
}

// PropImpl is one property's world generator and executor.
type PropImpl struct {
	ID    string
	Race  bool
	Gen   func(r *Rng, idx int, tier string) *World
	Exec  func(w *World, st *Stats) (*Violation, RunInfo)
	NoRecheck bool // worlds examine first use of process-wide state: no in-process re-execution
	// Lists used by the generic minimiser: which op lists may be shrunk.
}

var props = map[string]*PropImpl{}

func register(p *PropImpl) { props[p.ID] = p }

// ---- helpers shared by table worlds ----------------------------------------------

func worldShape(w *World) uint64 {
	h := uint64(1469598103934665603)
	b, _ := json.Marshal(struct {
		O RouterOpts
		R []RouterOpts
		S []Op
		A []Op
		T [][]Op
	}{w.Opts, w.Routers, w.Setup, w.Ops, w.Tasks})
	return hashStr(h, string(b))
}

// applyAdmin executes one administrative op on a router; returns the recovered
// panic (nil if none).
func applyAdmin(e *Env, r *mux.Router[*Comp], op *Op) (pan any) {
	defer func() {
		pan = recover()
		simrt.SetYieldBudget(0)
	}()
	simrt.SetYieldBudget(requestBudget)
	// the method list is the caller's buffer: a private copy with spare capacity, overwritten as soon as
	// the call returns (a library that keeps the slice instead of what it says sees garbage later)
	var ms []string
	if op.Methods != nil {
		ms = append(make([]string, 0, len(op.Methods)+2), op.Methods...)
		defer func() {
			for i := range ms {
				ms[i] = "X-CLOBBERED"
			}
			_ = append(ms, "X-SPARE")
		}()
	}
	switch op.K {
	case "handle", "badhandle":
		h := e.Handler(op.HID, op.Script)
		switch {
		case strings.HasPrefix(op.Via, "prefix:"):
			r.Prefix(op.Via[7:]).Handle(strings.TrimPrefix(op.Pattern, op.Via[7:]), h, e.MWs(op.MW...), ms...)
		case op.Via == "resource":
			r.Resource(op.Pattern).Handle(h, e.MWs(op.MW...), ms...)
		default:
			r.Handle(op.Pattern, h, e.MWs(op.MW...), ms...)
		}
	case "remove":
		switch {
		case strings.HasPrefix(op.Via, "prefix:"):
			r.Prefix(op.Via[7:]).Remove(strings.TrimPrefix(op.Pattern, op.Via[7:]), ms...)
		case op.Via == "resource":
			r.Resource(op.Pattern).Remove(ms...)
		default:
			r.Remove(op.Pattern, ms...)
		}
	case "rclean":
		r.Resource(op.Pattern).Clean()
	case "clean":
		r.Clean()
	case "pclean":
		r.Prefix(op.Pattern).Clean()
	case "use":
		r.Use(e.MWs(op.MW...)...)
	default:
		panic("harness: unknown admin op " + op.K)
	}
	return nil
}

// applyModel mirrors applyAdmin on the model (for ops that were accepted).
func applyModel(m *Model, op *Op) {
	switch op.K {
	case "handle":
		m.Handle(op.Pattern, op.HID, op.MW, op.Methods)
	case "remove":
		m.Remove(op.Pattern, op.Methods)
	case "rclean":
		m.Remove(op.Pattern, nil)
	case "clean":
		m.Clean()
	case "pclean":
		m.CleanPrefix(op.Pattern)
	case "use":
		m.Use = append(m.Use, op.MW...)
	}
}

func isAdmin(k string) bool {
	switch k {
	case "handle", "badhandle", "remove", "rclean", "clean", "pclean", "use":
		return true
	}
	return false
}

func sortedCopy(s []string) []string {
	c := append([]string{}, s...)
	sort.Strings(c)
	return c
}

func strSet(s []string) map[string]bool {
	m := map[string]bool{}
	for _, x := range s {
		m[x] = true
	}
	return m
}

// genMethods draws a method list for a registration.
func genMethods(r *Rng, trace bool) []string {
	switch r.Intn(10) {
	case 0:
		return nil // Any
	case 1, 2, 3, 4:
		return []string{"GET"}
	case 5:
		return []string{"POST"}
	case 6:
		return []string{"GET", "POST"}
	case 7:
		return []string{pick(r, []string{"PUT", "PATCH", "DELETE", "CONNECT"})}
	case 8:
		if !trace {
			return []string{"TRACE"}
		}
		return []string{"DELETE", "GET"}
	default:
		ms := append([]string{}, anyMethods...)
		shuffle(r, ms)
		return ms[:r.Range(1, 3)]
	}
}

// genPoolCfg draws an adversarial allocator policy.
func genPoolCfg(r *Rng) simrt.PoolCfg {
	c := simrt.PoolCfg{Seed: r.U64()}
	switch r.Intn(4) {
	case 0:
		c.Newest = 1 // plain LIFO: maximal reuse
	case 1:
		c.Newest, c.Oldest, c.Rand, c.Fresh = 4, 2, 2, 1
		c.Drop = 10
	case 2:
		c.Rand, c.Fresh = 3, 1
		c.Drop = 25
	case 3:
		c.Fresh = 1 // never reuse
		c.Drop = 50
	}
	return c
}
