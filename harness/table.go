package main

import (
	"fmt"
	"strings"

	mux "github.com/issue9/mux/v9"
	"github.com/issue9/mux/v9/simrt"
)

// TABLE world: one router, a linearised history of administrative operations
// issued by several admin tasks (op-atomic interleaving chosen by the seeded
// scheduler at generation time) and client requests, checked by one armed
// oracle against the table model.

type tableCtx struct {
	w      *World
	env    *Env
	r      *mux.Router[*Comp]
	m      *Model
	st     *Stats
	step   int
	hash   uint64
	mutated bool
	probed  bool
	last   map[string]string // probe key -> pattern that served it (C03)
}

type tableOracle interface {
	Before(c *tableCtx, op *Op)
	AfterAdmin(c *tableCtx, op *Op, pan any, applied bool) *Violation
	OnReq(c *tableCtx, op *Op, o *Obs) *Violation
}

type noOracle struct{}

func (noOracle) Before(*tableCtx, *Op)                              {}
func (noOracle) AfterAdmin(*tableCtx, *Op, any, bool) *Violation    { return nil }
func (noOracle) OnReq(*tableCtx, *Op, *Obs) *Violation              { return nil }

type tableMix struct {
	adminLo, adminHi int
	reqLo, reqHi     int // requests after each admin op
	poolLo, poolHi   int
	pRemove, pRemoveM, pClean, pPClean, pUse int // percent of admin ops (rest: handle)
	garbageRemove    bool // Remove arguments "", unknown names, never-registered patterns
	removeHead       bool // Remove(p, "HEAD")
	facade           bool // some ops through Prefix/Resource
	routeMW          bool // handles carry middlewares
	trace            int  // percent of worlds with WithTrace
	panicNoise       bool
	methodsPool      []string
}

// scaleMix: in the thorough tier half of the worlds have longer histories over larger pools.
func scaleMix(r *Rng, mix tableMix, tier string) tableMix {
	if tier == "thorough" && r.Pct(50) {
		mix.adminHi = mix.adminHi * 2
		mix.poolHi = 22
	}
	return mix
}

var defaultMix = tableMix{adminLo: 4, adminHi: 20, reqLo: 2, reqHi: 6, poolLo: 6, poolHi: 14, pRemove: 12, pRemoveM: 10, pClean: 3, pPClean: 4, trace: 30}

func genTableWorld(r *Rng, mix tableMix) *World {
	w := &World{}
	w.Opts = RouterOpts{Name: "r", Interceptors: GenICs(r), Trace: r.Pct(mix.trace), Lock: r.Pct(30)}
	if r.Pct(20) {
		w.Opts.URLDomain = "https://example.com"
	}
	w.Pool = genPoolCfg(r)
	pool := GenPool(r, r.Range(mix.poolLo, mix.poolHi), w.Opts.Interceptors)
	var pats []*Pattern
	for _, raw := range pool {
		p, _ := ParsePattern(raw, w.Opts.Interceptors)
		pats = append(pats, p)
	}
	m := NewModel(w.Opts)
	nAdmin := r.Range(mix.adminLo, mix.adminHi)
	nTasks := r.Range(1, 3)
	hid := 100
	mwN := 0
	for a := 0; a < nAdmin; a++ {
		op := Op{T: r.Intn(nTasks)}
		k := r.Intn(100)
		switch {
		case k < mix.pRemove && len(m.Order) > 0:
			op.K = "remove"
			op.Pattern = pick(r, m.Order)
			if mix.garbageRemove && r.Pct(15) {
				op.Pattern = pick(r, pool)
			}
			if mix.facade {
				switch r.Intn(4) {
				case 0:
					op.K = "rclean" // Resource(pattern).Clean(): exactly this pattern, not what extends it
				case 1:
					op.Via = "resource"
				case 2:
					op.Via = "prefix:" + op.Pattern[:r.Intn(len(op.Pattern))]
				}
			}
		case k < mix.pRemove+mix.pRemoveM && len(m.Order) > 0:
			op.K = "remove"
			op.Pattern = pick(r, m.Order)
			live := sortedKeys(strSetOfHandlers(m.Routes[op.Pattern]))
			switch r.Intn(6) {
			case 0:
				op.Methods = []string{pick(r, live)}
			case 1:
				op.Methods = live // all of them
			case 2:
				op.Methods = []string{pick(r, anyMethods)} // possibly one it never had
			case 3:
				op.Methods = []string{pick(r, []string{"OPTIONS", "TRACE"})}
				if r.Pct(30) {
					op.Methods = []string{pick(r, live), "TRACE"}
				}
			case 4:
				op.Methods = []string{pick(r, live), pick(r, anyMethods)}
			case 5:
				op.Methods = []string{pick(r, live)}
				if mix.garbageRemove {
					op.Methods = []string{pick(r, []string{"", "BOGUS", "get", "options"})}
				}
				if mix.removeHead && r.Pct(60) {
					op.Methods = []string{"HEAD"}
				}
			}
		case k < mix.pRemove+mix.pRemoveM+mix.pClean:
			op.K = "clean"
		case k < mix.pRemove+mix.pRemoveM+mix.pClean+mix.pPClean && len(pool) > 0:
			op.K = "pclean"
			p := pick(r, pool)
			op.Pattern = p[:r.Range(1, len(p))]
			if r.Pct(70) { // natural boundaries: right after a '/' or a parameter
				var cuts []int
				for i := 1; i <= len(p); i++ {
					if p[i-1] == '/' || p[i-1] == '}' {
						cuts = append(cuts, i)
					}
				}
				if len(cuts) > 0 {
					op.Pattern = p[:pick(r, cuts)]
					if r.Pct(30) && !strings.HasSuffix(op.Pattern, "/") {
						op.Pattern += "/"
					}
				}
			}
		case k < mix.pRemove+mix.pRemoveM+mix.pClean+mix.pPClean+mix.pUse:
			op.K = "use"
			mwN++
			op.MW = []string{fmt.Sprintf("U%d", mwN)}
			if r.Pct(30) {
				mwN++
				op.MW = append(op.MW, fmt.Sprintf("U%d", mwN))
			}
		default:
			op.K = "handle"
			ok := false
			for try := 0; try < 8 && !ok; try++ {
				op.Pattern = pick(r, pool)
				op.Methods = genMethods(r, w.Opts.Trace)
				if mix.methodsPool != nil {
					op.Methods = []string{pick(r, mix.methodsPool)}
				}
				v, _ := m.HandleVerdict(op.Pattern, op.Methods)
				ok = v == 1
			}
			if !ok {
				continue
			}
			hid++
			op.HID = hid
			if mix.routeMW && r.Pct(50) {
				mwN++
				op.MW = []string{fmt.Sprintf("R%d", mwN)}
				if r.Pct(30) {
					mwN++
					op.MW = append(op.MW, fmt.Sprintf("R%d", mwN))
				}
			}
			if mix.facade && r.Pct(40) {
				if r.Pct(50) {
					op.Via = "resource"
				} else {
					op.Via = "prefix:" + op.Pattern[:r.Intn(len(op.Pattern))]
				}
			}
		}
		applyModel(m, &op)
		w.Ops = append(w.Ops, op)
		// client requests
		nreq := r.Range(mix.reqLo, mix.reqHi)
		for _, p := range GenPaths(r, pats, nreq) {
			meth := "GET"
			switch r.Intn(10) {
			case 0:
				meth = "POST"
			case 1:
				meth = "HEAD"
			case 2:
				meth = "OPTIONS"
			case 3:
				meth = pick(r, allMethods)
			case 4:
				meth = pick(r, []string{"BOGUS", "get", "", "PROPFIND"})
			}
			w.Ops = append(w.Ops, Op{T: 10 + r.Intn(2), K: "req", Req: &Req{Method: meth, Path: p}})
		}
	}
	return w
}

func strSetOfHandlers(r *MRoute) map[string]bool {
	s := map[string]bool{}
	if r != nil {
		for k := range r.Methods {
			s[k] = true
		}
	}
	return s
}

func execTable(w *World, st *Stats, orc tableOracle, extra ...mux.Option) (*Violation, RunInfo) {
	simrt.SetPoolCfg(w.Pool)
	env := NewEnv()
	c := &tableCtx{w: w, env: env, st: st, m: NewModel(w.Opts), last: map[string]string{}, hash: 1469598103934665603}
	c.r = NewSimRouter(env, w.Opts, extra...)
	info := RunInfo{Shape: worldShape(w)}
	for i := range w.Ops {
		op := &w.Ops[i]
		c.step = i
		if isAdmin(op.K) {
			orc.Before(c, op)
			verdict := 1
			if op.K == "handle" || op.K == "badhandle" {
				verdict, _ = c.m.HandleVerdict(op.Pattern, op.Methods)
			}
			pan := applyAdmin(env, c.r, op)
			applied := pan == nil
			if applied && (op.K != "badhandle" || verdict >= 0) {
				mo := *op
				if mo.K == "badhandle" {
					mo.K = "handle"
				}
				applyModel(c.m, &mo)
				c.mutated = true
			}
			if pan != nil {
				st.C("admin_op_panicked")
				c.hash = hashStr(c.hash, "panic:"+classifyPanic(pan)[:minInt(7, len(classifyPanic(pan)))])
			}
			st.C("op_" + op.K)
			if v := orc.AfterAdmin(c, op, pan, applied); v != nil {
				v.Step = i
				info.Hash = c.hash
				return v, info
			}
		} else if op.K == "req" {
			for k, f := range op.Faults { // fault state is per execution
				f.fired = false
				f.value = f.makeValue(i*10 + k)
			}
			o := Serve(c.r, *op.Req, op.Faults, nil)
			c.hash = hashStr(c.hash, o.Key())
			st.C("op_req")
			if c.mutated {
				c.probed = true
			}
			if v := orc.OnReq(c, op, &o); v != nil {
				v.Step = i
				info.Hash = c.hash
				return v, info
			}
		}
	}
	info.Nontrivial = c.mutated && c.probed
	info.Hash = c.hash
	info.Events = int64(len(w.Ops))
	return nil, info
}

func minInt(a, b int) int {
	if a < b {
		return a
	}
	return b
}

// probe sends one request as part of an oracle's probe set.
func (c *tableCtx) probe(method, path string) Obs {
	o := Serve(c.r, Req{Method: method, Path: path}, nil, nil)
	c.hash = hashStr(c.hash, o.Key())
	c.probed = true
	c.st.C("probe")
	return o
}

// expectFor computes what the model demands for (method, witness path of a
// live pattern): the set of admissible patterns (resolver over the live set)
// and, for a given winning pattern, the handler that must run.
func (c *tableCtx) expectHandler(pattern, method string) (kind CKind, hid int) {
	r := c.m.Routes[pattern]
	if c.m.Trace && method == "TRACE" {
		return KTrace, idTrace
	}
	switch {
	case method == "OPTIONS":
		return KOptions, idOptions
	case method == "HEAD":
		if h := r.Methods["GET"]; h != nil {
			return KRoute, h.HID
		}
		return K405, id405
	default:
		if h := r.Methods[method]; h != nil {
			return KRoute, h.HID
		}
		return K405, id405
	}
}

// ---- C01: dispatch soundness -----------------------------------------------------------

type c01Oracle struct{ noOracle }

func (c01Oracle) OnReq(c *tableCtx, op *Op, o *Obs) *Violation {
	q := op.Req
	mk := func(oracle, sig, detail string) *Violation {
		return &Violation{Prop: "C01", Oracle: oracle, Sig: sig, Detail: fmt.Sprintf("%s -> %s | %s", q, o.Key(), detail)}
	}
	if o.Panic == "nontermination" {
		return mk("terminates", "non-termination", "the request executed more than 3M statements without answering")
	}
	if o.Panic != "" || o.Zero || o.Called == 0 {
		return nil // crashes are C05's subject
	}
	if q.Path == "*" || q.Path == "" || o.Kind == KTrace {
		return nil
	}
	if o.Kind == K404 {
		c.st.C("c01_404_checked")
		if len(o.Params) != 0 {
			return mk("notfound-clean", "404-with-params", "a 404 reports route parameters "+fmtParams(o.Params))
		}
		if !o.NodeNil {
			return mk("notfound-clean", "404-with-node", "a 404 reports a node")
		}
		return nil
	}
	if o.NodeNil {
		return mk("route-live", "handler-without-node", "handler ran without a reported route")
	}
	c.st.C("c01_dispatch_checked")
	mr := c.m.Routes[o.Pattern]
	if mr == nil {
		return mk("route-live", "dead-pattern", "reported pattern is not a live route")
	}
	kind, hid := c.expectHandler(o.Pattern, q.Method)
	if o.Kind != kind || (kind == KRoute && o.HID != hid) {
		return mk("handler-identity", "wrong-handler", fmt.Sprintf("model: %s h%d", kind, hid))
	}
	if (o.Kind == KOptions || o.Kind == K405) && o.Rec.Comp.Node != nil && o.Rec.Comp.Node.Pattern() != o.Pattern {
		return mk("handler-identity", "foreign-auto-handler", "the OPTIONS/405 component that ran was built for pattern "+o.Rec.Comp.Node.Pattern())
	}
	// parameters: exactly the capturing names
	names := mr.P.CapturingNames()
	for _, n := range names {
		if _, ok := o.Params[n]; !ok {
			return mk("params-exact", "param-missing", "capturing parameter "+n+" is missing")
		}
	}
	if len(o.Params) != len(names) {
		return mk("params-exact", "param-leftover", fmt.Sprintf("pattern captures %v", names))
	}
	if !mr.P.MatchesWith(q.Path, o.Params) {
		return mk("path-equals-pattern", "path-mismatch", "request path is not the pattern with the reported values substituted (literal bytes / constraints)")
	}
	if len(names) > 0 {
		c.st.C("c01_param_dispatch")
	}
	return nil
}

func init() {
	register(&PropImpl{ID: "C01",
		Gen: func(r *Rng, idx int, tier string) *World {
			mix := defaultMix
			mix.reqLo, mix.reqHi = 4, 10
			poolExtras = true
			defer func() { poolExtras = false }()
			return genTableWorld(r, scaleMix(r, mix, tier))
		},
		Exec: func(w *World, st *Stats) (*Violation, RunInfo) { return execTable(w, st, c01Oracle{}) },
	})
}

// ---- C03: lifecycle -----------------------------------------------------------------------

type c03Oracle struct{ noOracle }

func (c03Oracle) AfterAdmin(c *tableCtx, op *Op, pan any, applied bool) *Violation {
	mk := func(oracle, sig, detail string) *Violation {
		return &Violation{Prop: "C03", Oracle: oracle, Sig: sig, Detail: fmt.Sprintf("after %s: %s", op, detail)}
	}
	if pan != nil && op.K != "handle" {
		return mk("no-panic", "admin-panic:"+op.K, "operation panicked: "+classifyPanic(pan))
	}
	// (1) Routes()
	var routes map[string][]string
	if p := func() (p any) {
		defer func() { p = recover() }()
		routes = c.r.Routes()
		pokeRoutes(routes)
		return nil
	}(); p != nil {
		return mk("no-panic", "routes-panic", "Routes() panicked: "+classifyPanic(p))
	}
	if d := routesDiff(canonRoutes(routes), c.m.ExpectRoutes()); d != "" {
		return mk("routes", "routes-mismatch", d)
	}
	// (2)+(3)+(5): witness probes
	res := NewResolver(c.m.LivePatterns())
	removal := op.K == "remove" || op.K == "clean" || op.K == "pclean" || op.K == "rclean"
	newLast := map[string]string{}
	probeSet := func(p *Pattern, live bool) *Violation {
		path, capt := FixedWitness(p)
		adm := res.Resolve(path)
		admPat := map[string]Outcome{}
		for _, a := range adm {
			admPat[a.Pattern] = a
		}
		methods := []string{"GET", "POST", "HEAD", "OPTIONS", "DELETE", "PUT", "PATCH", "CONNECT", "TRACE", "BOGUS"}
		for _, meth := range methods {
			o := c.probe(meth, path)
			key := meth + " " + path
			if o.Panic != "" {
				return mk("no-panic", "request-panic", fmt.Sprintf("%s panicked: %s", key, o.Panic))
			}
			if o.Zero {
				return mk("no-panic", "zero-handler", fmt.Sprintf("%s reached CallFunc with the zero handler (a real handler type crashes)", key))
			}
			if c.m.Trace && meth == "TRACE" {
				continue // C18
			}
			if !live {
				// witness of a pattern that is no longer live: its values need not be
				// simple for the remaining routes (removal leaves split nodes split),
				// so only "a dead pair is never served" and handler identity are demanded.
				if o.Kind == K404 {
					continue
				}
				if c.m.Routes[o.Pattern] == nil {
					return mk("removed-gone", "served-after-removal", fmt.Sprintf("%s -> %s, but that pattern is not live", key, o.Key()))
				}
			} else {
				if o.Kind == K404 {
					return mk("live-reachable", "live-unreachable", fmt.Sprintf("%s -> 404, live candidates %v", key, outcomeKeys(adm)))
				}
				if _, ok := admPat[o.Pattern]; !ok && o.Pattern != p.Raw {
					return mk("winner-priority", "wrong-winner", fmt.Sprintf("%s -> %s, admissible %v", key, o.Key(), outcomeKeys(adm)))
				}
			}
			kind, hid := c.expectHandler(o.Pattern, meth)
			if o.Kind != kind || (kind == KRoute && o.HID != hid) {
				return mk("handler", "wrong-handler", fmt.Sprintf("%s -> %s, model %s h%d", key, o.Key(), kind, hid))
			}
			if live && o.Pattern == p.Raw {
				// own simple values must come back (left-overs are C01's clause; only own names compared)
				for k, v := range capt {
					if o.Params[k] != v {
						return mk("witness-params", "wrong-params", fmt.Sprintf("%s -> %s, expected %s", key, o.Key(), fmtParams(capt)))
					}
				}
			}
			newLast[key] = o.Pattern + " " + fmt.Sprint(o.HID)
			// (4) removals never change the handling of requests that went to a different route
			if prev, ok := c.last[key]; ok && removal && prev != newLast[key] {
				prevPat := strings.SplitN(prev, " ", 2)[0]
				target := prevPat == op.Pattern || op.K == "clean" || (op.K == "pclean" && strings.HasPrefix(prevPat, op.Pattern))
				if !target && c.m.Routes[prevPat] != nil {
					if _, hid2 := c.expectHandler(prevPat, meth); fmt.Sprintf("%s %d", prevPat, hid2) == prev {
						return mk("rest-untouched", "handling-changed", fmt.Sprintf("%s was served by %s and is now served by %s although a different route was removed", key, prev, newLast[key]))
					}
				}
			}
		}
		return nil
	}
	for _, pat := range c.m.SortedPatterns() {
		if v := probeSet(c.m.Routes[pat].P, true); v != nil {
			return v
		}
	}
	// the pattern just removed
	if removal && op.Pattern != "" && op.K != "pclean" {
		if p, ok := ParsePattern(op.Pattern, c.m.ICs); ok && c.m.Routes[op.Pattern] == nil {
			c.st.C("c03_removed_probe")
			if v := probeSet(p, false); v != nil {
				return v
			}
		}
	}
	c.last = newLast
	return nil
}

func (c03Oracle) OnReq(c *tableCtx, op *Op, o *Obs) *Violation {
	if o.Panic != "" {
		return &Violation{Prop: "C03", Oracle: "no-panic", Sig: "request-panic", Detail: fmt.Sprintf("%s panicked: %s", op.Req, o.Panic)}
	}
	return nil
}

func init() {
	register(&PropImpl{ID: "C03",
		Gen: func(r *Rng, idx int, tier string) *World {
			mix := defaultMix
			mix.pRemove, mix.pRemoveM, mix.pClean, mix.pPClean = 22, 14, 4, 6
			mix.garbageRemove = true
			mix.facade = true
			mix.reqLo, mix.reqHi = 0, 2
			mix.adminLo, mix.adminHi = 6, 24
			return genTableWorld(r, scaleMix(r, mix, tier))
		},
		Exec: func(w *World, st *Stats) (*Violation, RunInfo) { return execTable(w, st, c03Oracle{}) },
	})
}

// ---- C04: Allow / method sets ------------------------------------------------------------------

type c04Oracle struct{ noOracle }

func (c04Oracle) AfterAdmin(c *tableCtx, op *Op, pan any, applied bool) *Violation {
	mk := func(oracle, sig, detail string) *Violation {
		return &Violation{Prop: "C04", Oracle: oracle, Sig: sig, Detail: fmt.Sprintf("after %s: %s", op, detail)}
	}
	routes := map[string][]string{}
	func() {
		defer func() { recover() }()
		raw := c.r.Routes()
		pokeRoutes(raw)
		routes = canonRoutes(raw)
	}()
	for _, pat := range c.m.SortedPatterns() {
		want := c.m.MethodSet(pat)
		ws := strings.Join(sortedKeys(want), " ")
		path, _ := FixedWitness(c.m.Routes[pat].P)
		// only meaningful when the witness is dispatched to this pattern
		o := c.probe("OPTIONS", path)
		if o.Panic != "" || o.Zero || o.Kind != KOptions || o.Pattern != pat {
			continue // reachability / winner are C03's clauses
		}
		c.st.C("c04_options_checked")
		if !sameSet(setOf(o.Allow), want) {
			return mk("options-allow", "options-allow-stale", fmt.Sprintf("OPTIONS %s Allow=%s want [%s]", path, canonSet(o.Allow), ws))
		}
		if !sameSet(setOf(o.AllowNode), want) {
			return mk("node-allow", "node-allowheader", fmt.Sprintf("Route.Node().AllowHeader()=%s want [%s] (%s)", canonSet(o.AllowNode), ws, pat))
		}
		if !sameSet(strSet(o.Methods), want) {
			return mk("node-methods", "node-methods", fmt.Sprintf("Route.Node().Methods()=%v want [%s] (%s)", sortedCopy(o.Methods), ws, pat))
		}
		if got, ok := routes[pat]; ok && strings.Join(got, " ") != ws {
			return mk("routes", "routes-methods", fmt.Sprintf("Routes()[%s]=%v want [%s]", pat, got, ws))
		}
		// a 405 answer
		o5 := c.probe("BOGUS", path)
		if o5.Panic == "" && !o5.Zero && o5.Kind == K405 && o5.Pattern == pat {
			c.st.C("c04_405_checked")
			if !sameSet(setOf(o5.Allow), want) {
				return mk("405-allow", "405-allow-stale", fmt.Sprintf("405 for %s Allow=%s want [%s]", path, canonSet(o5.Allow), ws))
			}
		}
	}
	// OPTIONS *
	o := c.probe("OPTIONS", "*")
	if o.Panic == "" && !o.Zero && o.Kind == KOptions {
		c.st.C("c04_star_checked")
		lo, hi := c.m.StarBounds()
		got := setOf(o.Allow)
		for k := range lo {
			if !got[k] {
				return mk("options-star", "star-lacks", fmt.Sprintf("OPTIONS * Allow=%s lacks %s (live methods %v)", canonSet(o.Allow), k, sortedKeys(lo)))
			}
		}
		for k := range got {
			if !hi[k] {
				return mk("options-star", "star-extra", fmt.Sprintf("OPTIONS * Allow=%s lists %s which no live route has (live methods %v)", canonSet(o.Allow), k, sortedKeys(lo)))
			}
		}
	}
	return nil
}

func init() {
	register(&PropImpl{ID: "C04",
		Gen: func(r *Rng, idx int, tier string) *World {
			mix := defaultMix
			mix.pRemove, mix.pRemoveM, mix.pClean, mix.pPClean = 12, 18, 4, 4
			mix.reqLo, mix.reqHi = 0, 1
			mix.trace = 40
			w := genTableWorld(r, scaleMix(r, mix, tier))
			if r.Pct(10) { // brand-new router: probe before anything is registered
				w.Ops = append([]Op{{K: "remove", Pattern: "/never"}}, w.Ops...)
			}
			return w
		},
		Exec: func(w *World, st *Stats) (*Violation, RunInfo) { return execTable(w, st, c04Oracle{}) },
	})
}

// pokeRoutes does what a caller may do with the lists Routes() hands out: append to them (it never
// writes to an element it was given).  The appended entry lives in the caller's slice only; a library
// that lets it show through anywhere else - another pattern's list, another router, an Allow header -
// has handed out aliased spare capacity.  Only called outside simulated tasks.
func pokeRoutes(routes map[string][]string) {
	for _, v := range routes {
		if cap(v) > len(v) {
			_ = append(v, "X-APPENDED-BY-CALLER")
		}
	}
}
