package main

import (
	"regexp"
	"sort"
	"strings"
)

// Reference resolver for C02 (also C03, C14): an executable statement of the
// documented resolution procedure over a *set* of patterns.  It never builds a
// tree and does not depend on registration order.  It returns the set of
// admissible outcomes (DESIGN.md §5-C02).

type Outcome struct {
	Pattern string
	Params  map[string]string
}

func (o Outcome) Key() string { return o.Pattern + " " + fmtParams(o.Params) }

type cand struct {
	p   *Pattern
	ti  int // token index
	off int // offset inside a literal token
}

func (c cand) atEnd() bool { return c.ti == len(c.p.Tokens) }

// nextLit returns the literal text that follows position c up to the next
// parameter token (may be empty).
func (c cand) nextLit() string {
	if c.atEnd() {
		return ""
	}
	t := c.p.Tokens[c.ti]
	if t.Kind != PLit {
		return ""
	}
	return t.Text[c.off:]
}

func (c cand) advance(n int) cand {
	// advance n bytes inside the current literal token
	t := c.p.Tokens[c.ti]
	c.off += n
	if c.off == len(t.Text) {
		c.ti++
		c.off = 0
	}
	return c
}

type Resolver struct {
	Pats  []*Pattern
	steps int
}

func NewResolver(pats []*Pattern) *Resolver { return &Resolver{Pats: pats} }

// Resolve returns the admissible outcomes for path; empty = 404.
func (r *Resolver) Resolve(path string) []Outcome {
	cs := make([]cand, 0, len(r.Pats))
	for _, p := range r.Pats {
		cs = append(cs, cand{p: p})
	}
	r.steps = 0
	outs := r.search(cs, path, nil)
	// dedupe
	seen := map[string]bool{}
	var res []Outcome
	for _, o := range outs {
		if k := o.Key(); !seen[k] {
			seen[k] = true
			res = append(res, o)
		}
	}
	return res
}

type binding struct{ k, v string }

func toParams(bs []binding) map[string]string {
	m := make(map[string]string, len(bs))
	for _, b := range bs {
		m[b.k] = b.v
	}
	return m
}

func (r *Resolver) search(cs []cand, rest string, bs []binding) []Outcome {
	r.steps++
	if len(cs) == 0 || r.steps > 200000 {
		return nil
	}
	var ends []Outcome
	if rest == "" {
		for _, c := range cs {
			if c.atEnd() {
				ends = append(ends, Outcome{Pattern: c.p.Raw, Params: toParams(bs)})
			}
		}
	}

	// 1. literal continuation
	if rest != "" {
		var lit []cand
		for _, c := range cs {
			if l := c.nextLit(); l != "" && l[0] == rest[0] {
				lit = append(lit, c.advance(1))
			}
		}
		if len(lit) > 0 {
			if res := r.search(lit, rest[1:], bs); len(res) > 0 {
				return res
			}
		}
	}

	// 2. parameter groups by kind
	for _, kind := range []PKind{PInterceptor, PRegexp, PNamed} {
		type group struct {
			tok   string
			first int // first byte of following literal, -1 = parameter ends the pattern
			cs    []cand
		}
		var groups []*group
		for _, c := range cs {
			if c.atEnd() || c.off != 0 {
				continue
			}
			t := c.p.Tokens[c.ti]
			if t.Kind != kind {
				continue
			}
			first := -1
			if c.ti+1 < len(c.p.Tokens) {
				first = int(c.p.Tokens[c.ti+1].Text[0])
			}
			var g *group
			for _, gg := range groups {
				if gg.tok == t.Text && gg.first == first {
					g = gg
				}
			}
			if g == nil {
				g = &group{tok: t.Text, first: first}
				groups = append(groups, g)
			}
			g.cs = append(g.cs, c)
		}
		var res []Outcome
		for _, g := range groups {
			t := g.cs[0].p.Tokens[g.cs[0].ti]
			if g.first == -1 {
				// parameter ends the pattern: takes the whole rest
				if t.Accepts(rest) {
					nb := bs
					if !t.Ignore {
						nb = append(append([]binding{}, bs...), binding{t.Name, rest})
					}
					for _, c := range g.cs {
						res = append(res, Outcome{Pattern: c.p.Raw, Params: toParams(nb)})
					}
				}
				continue
			}
			// terminator: longest common prefix of the following literals
			term := g.cs[0].p.Tokens[g.cs[0].ti+1].Text
			for _, c := range g.cs[1:] {
				term = commonPrefix(term, c.p.Tokens[c.ti+1].Text)
			}
			val, ok := shortestCapture(&t, term, rest)
			if !ok {
				continue
			}
			nb := bs
			if !t.Ignore {
				nb = append(append([]binding{}, bs...), binding{t.Name, val})
			}
			next := make([]cand, 0, len(g.cs))
			for _, c := range g.cs {
				next = append(next, cand{p: c.p, ti: c.ti + 1}.advance(len(term)))
			}
			res = append(res, r.search(next, rest[len(val)+len(term):], nb)...)
		}
		if len(res) > 0 {
			return append(res, ends...)
		}
	}
	return ends
}

func commonPrefix(a, b string) string {
	n := 0
	for n < len(a) && n < len(b) && a[n] == b[n] {
		n++
	}
	return a[:n]
}

// shortestCapture finds the shortest value v such that rest = v + term + … and
// the constraint accepts v.
func shortestCapture(t *Token, term, rest string) (string, bool) {
	if t.Kind == PRegexp {
		// leftmost-first match of ^(rule) followed by the literal terminator;
		// for the generated rule classes (unique match, cannot swallow the
		// terminator's first byte) this is the shortest accepted capture.
		re := compileCached("^(" + t.Rule + ")" + regexp.QuoteMeta(term))
		if re == nil {
			return "", false
		}
		m := re.FindStringSubmatchIndex(rest)
		if m == nil {
			return "", false
		}
		return rest[:m[3]], true
	}
	from := 0
	for {
		i := strings.Index(rest[from:], term)
		if i < 0 {
			return "", false
		}
		v := rest[:from+i]
		if t.Accepts(v) {
			return v, true
		}
		from += i + len(term)
		if from > len(rest) {
			return "", false
		}
	}
}

func outcomeKeys(os []Outcome) []string {
	ks := make([]string, 0, len(os))
	for _, o := range os {
		ks = append(ks, o.Key())
	}
	sort.Strings(ks)
	return ks
}
