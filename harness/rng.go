package main

// Rng is a splitmix64 generator: the only source of randomness in the harness.
type Rng struct{ s uint64 }

func NewRng(seed uint64) *Rng { return &Rng{s: seed} }

func mix64(z uint64) uint64 {
	z += 0x9e3779b97f4a7c15
	z = (z ^ (z >> 30)) * 0xbf58476d1ce4e5b9
	z = (z ^ (z >> 27)) * 0x94d049bb133111eb
	return z ^ (z >> 31)
}

func (r *Rng) U64() uint64 {
	r.s += 0x9e3779b97f4a7c15
	z := r.s
	z = (z ^ (z >> 30)) * 0xbf58476d1ce4e5b9
	z = (z ^ (z >> 27)) * 0x94d049bb133111eb
	return z ^ (z >> 31)
}

// Split derives an independent stream.
func (r *Rng) Split() *Rng { return &Rng{s: mix64(r.U64() ^ 0x5851f42d4c957f2d)} }

func (r *Rng) Intn(n int) int {
	if n <= 1 {
		return 0
	}
	return int(r.U64() % uint64(n))
}

// Range returns a value in [lo,hi].
func (r *Rng) Range(lo, hi int) int { return lo + r.Intn(hi-lo+1) }

// Pct is true with probability p/100.
func (r *Rng) Pct(p int) bool { return r.Intn(100) < p }

func (r *Rng) Pick(s []string) string { return s[r.Intn(len(s))] }

func pick[T any](r *Rng, s []T) T { return s[r.Intn(len(s))] }

func shuffle[T any](r *Rng, s []T) {
	for i := len(s) - 1; i > 0; i-- {
		j := r.Intn(i + 1)
		s[i], s[j] = s[j], s[i]
	}
}

func hashStr(h uint64, s string) uint64 {
	for i := 0; i < len(s); i++ {
		h = (h ^ uint64(s[i])) * 0x100000001b3
	}
	return (h ^ 0xff) * 0x100000001b3
}

func hashU(h uint64, x uint64) uint64 { return (h ^ x) * 0x100000001b3 }
