package main

import (
	"fmt"
	"html"
	"io"
	"net/http"
	"sort"
	"strconv"
	"strings"

	mux "github.com/issue9/mux/v9"
	"github.com/issue9/mux/v9/simrt"
)

// snapshot renders the complete observable state of a router: Routes(), the
// dispatch outcome and Allow set of every method on a witness of every listed
// pattern, OPTIONS *.
func (c *tableCtx) snapshot(extra []*Pattern) []string {
	var lines []string
	func() {
		defer func() {
			if p := recover(); p != nil {
				lines = append(lines, "Routes() panicked: "+classifyPanic(p))
			}
		}()
		lines = append(lines, "routes: "+routesKey(c.r.Routes()))
	}()
	pats := append([]*Pattern{}, extra...)
	for _, k := range c.m.SortedPatterns() {
		pats = append(pats, c.m.Routes[k].P)
	}
	seen := map[string]bool{}
	for _, p := range pats {
		if seen[p.Raw] {
			continue
		}
		seen[p.Raw] = true
		path, vals := FixedWitness(p)
		for _, meth := range []string{"GET", "HEAD", "POST", "PUT", "DELETE", "PATCH", "CONNECT", "TRACE", "OPTIONS", "BOGUS"} {
			o := c.probe(meth, path)
			lines = append(lines, fmt.Sprintf("%s %s -> %s", meth, path, o.Key()))
		}
		// a second witness whose first parameter value runs into the literal that follows it ("x/a" for
		// {id}/author): where such a path goes depends on how the literal tail is split into nodes
		for i, t := range p.Tokens {
			if t.Kind == PLit || t.Ignore || i+1 >= len(p.Tokens) || p.Tokens[i+1].Kind != PLit {
				continue
			}
			next := p.Tokens[i+1].Text
			v := vals[t.Name] + next[:min(2, len(next))]
			if !t.Accepts(v) {
				break
			}
			rich := map[string]string{}
			for k, x := range vals {
				rich[k] = x
			}
			rich[t.Name] = v
			rp := p.Fill(rich)
			for _, meth := range []string{"GET", "POST", "OPTIONS"} {
				o := c.probe(meth, rp)
				lines = append(lines, fmt.Sprintf("%s %s -> %s", meth, rp, o.Key()))
			}
			break
		}
	}
	o := c.probe("OPTIONS", "*")
	lines = append(lines, "OPTIONS * -> "+o.Key())
	return lines
}

func diffLines(a, b []string) string {
	for i := 0; i < len(a) || i < len(b); i++ {
		var x, y string
		if i < len(a) {
			x = a[i]
		}
		if i < len(b) {
			y = b[i]
		}
		if x != y {
			return fmt.Sprintf("before: %s | after: %s", x, y)
		}
	}
	return ""
}

// ---- C17: a rejected Handle changes nothing ------------------------------------------------

type c17Oracle struct {
	noOracle
	before  []string
	verdict int
	why     string
}

func (o *c17Oracle) Before(c *tableCtx, op *Op) {
	o.before = nil
	if op.K != "handle" && op.K != "badhandle" {
		return
	}
	o.verdict, o.why = c.m.HandleVerdict(op.Pattern, op.Methods)
	var extra []*Pattern
	if p, ok := ParsePattern(op.Pattern, c.m.ICs); ok {
		extra = append(extra, p)
	}
	o.before = c.snapshot(extra)
}

func (o *c17Oracle) AfterAdmin(c *tableCtx, op *Op, pan any, applied bool) *Violation {
	if op.K != "handle" && op.K != "badhandle" {
		return nil
	}
	mk := func(oracle, sig, detail string) *Violation {
		return &Violation{Prop: "C17", Oracle: oracle, Sig: sig, Detail: fmt.Sprintf("Handle(%q, %v): %s", op.Pattern, op.Methods, detail)}
	}
	cls := classifyPanic(pan)
	if strings.HasPrefix(cls, "runtime") {
		return nil // runtime faults are C05's subject
	}
	switch o.verdict {
	case -1:
		c.st.C("op_reject")
		c.st.C("op_reject_" + strings.SplitN(o.why, " ", 2)[0])
		if pan == nil {
			sig := "accepted:" + strings.SplitN(o.why, " ", 2)[0]
			if strings.HasPrefix(o.why, "identical") {
				// the ambiguity check walks the tree: say whether routes had been removed before (split nodes stay split)
				sig += ":add-only-history"
				for i := 0; i < c.step; i++ {
					switch c.w.Ops[i].K {
					case "remove", "clean", "pclean", "rclean":
						sig = "accepted:identical:after-removal"
					}
				}
			}
			return mk("must-reject", sig, "accepted although it must be rejected ("+o.why+")")
		}
	case +1:
		if pan != nil {
			return mk("must-accept", "rejected-valid", "rejected ("+cls+") although the pattern is well-formed, the methods are valid and new, and no live route is identical up to parameter names")
		}
		return nil
	default:
		if pan == nil {
			return nil
		}
	}
	// the call was rejected: nothing may have changed
	var extra []*Pattern
	if p, ok := ParsePattern(op.Pattern, c.m.ICs); ok {
		extra = append(extra, p)
	}
	after := c.snapshot(extra)
	c.st.C("c17_snapshots_compared")
	if d := diffLines(o.before, after); d != "" {
		return mk("unchanged", "partial-application", "rejected ("+o.why+") but the observable state changed: "+d)
	}
	return nil
}

var badPatterns = []string{"", "/a/{}", "/a/{:\\d+}", "/{a}{b}", "/x/{a}/{a}", "/x/{a}/{-a}", "/x/{-a}/y/{a:\\d+}/", "/{a:[}", "/p/{id:(}", "/{a}/{b}{c}/d"}

// genC17Split: the history that leaves a parameter node split - register P, register a sibling that
// shares the parameter and part of the following literal, remove the sibling - and then a pattern
// identical to P up to the parameter name or only its '-' flag: P is the only live route, so the call
// must be rejected.
func genC17Split(r *Rng) *World {
	w := &World{}
	w.Opts = RouterOpts{Name: "r", Interceptors: GenICs(r), Trace: r.Pct(30)}
	w.Pool = genPoolCfg(r)
	tok := pick(r, usable([]string{`{id}`, `{name}`, `{-ign}`, `{id:\d+}`, `{-n:\d+}`, `{w:word}`, `{id:digit}`}, w.Opts.Interceptors))
	root := pick(r, []string{"/pages/", "/u/", "/", "/a/b-"})
	tail := pick(r, []string{"/log/", "/posts", ".html", "/ab", "/" + strings.Repeat("longtail", pick(r, []int{32, 40, 130}))})
	sib := tail[:r.Range(1, len(tail)-1)] + pick(r, []string{"x", "/p/{pg:\\d*}/ac", "z/{more}"})
	p := root + tok + tail
	w.Ops = []Op{
		{K: "handle", Pattern: p, HID: 101, Methods: []string{"POST"}},
		{K: "handle", Pattern: root + tok + sib, HID: 102, Methods: []string{"GET"}},
		{K: "remove", Pattern: root + tok + sib},
	}
	twin := renamePattern(r, p, w.Opts.Interceptors)
	m := NewModel(w.Opts)
	for i := range w.Ops {
		applyModel(m, &w.Ops[i])
	}
	if v, _ := m.HandleVerdict(twin, []string{"CONNECT"}); twin != "" && v == -1 {
		w.Ops = append(w.Ops, Op{K: "badhandle", Pattern: twin, HID: 5001, Methods: []string{"CONNECT"}})
	}
	return w
}

// genC17Memo: a registration rejected only for its method list must leave no trace in whatever the
// router remembers about patterns: reject P (bad methods), register a name-variant Q, then P again
// with valid methods must be rejected as identical up to names to the only other route.
func genC17Memo(r *Rng) *World {
	w := &World{}
	w.Opts = RouterOpts{Name: "r", Interceptors: GenICs(r), Trace: r.Pct(30)}
	w.Pool = genPoolCfg(r)
	tok := pick(r, usable([]string{`{id}`, `{name}`, `{id:\d+}`, `{w:word}`}, w.Opts.Interceptors))
	p := pick(r, []string{"/pages/", "/u/", "/"}) + tok + pick(r, []string{"", "/log", ".html", "/" + strings.Repeat("tail", pick(r, []int{1, 64, 100}))})
	q := renamePattern(r, p, w.Opts.Interceptors)
	if q == "" {
		return genC17Split(r)
	}
	w.Ops = []Op{
		{K: "badhandle", Pattern: p, HID: 5001, Methods: []string{"GET", pick(r, []string{"BOGUS", "HEAD", "GET"})}},
		{K: "handle", Pattern: q, HID: 101, Methods: []string{"GET"}},
		{K: "badhandle", Pattern: p, HID: 5002, Methods: []string{"POST"}},
	}
	return w
}

// genC17Stale: whatever the router remembers about a pattern it has validated must die with the route,
// by every way a route can die.  Register P (and an unrelated Q), remove P by one of the removal
// paths, remove Q, register P under other parameter names, then P itself again: the renamed twin is
// the only other route, so the call must be rejected.
func genC17Stale(r *Rng) *World {
	w := &World{}
	w.Opts = RouterOpts{Name: "r", Interceptors: GenICs(r), Trace: r.Pct(30), Lock: r.Pct(30)}
	w.Pool = genPoolCfg(r)
	tok := pick(r, usable([]string{`{id}`, `{name}`, `{id:\d+}`, `{w:word}`, `{-ign}`}, w.Opts.Interceptors))
	root := pick(r, []string{"/p/", "/pages/", "/u/v/"})
	p := root + tok + pick(r, []string{"", "/log", ".html", "/a/{sub}"})
	q := pick(r, []string{"/q", "/zz/{x}", "/p", "/u"})
	twin := renamePattern(r, p, w.Opts.Interceptors)
	if twin == "" {
		return genC17Split(r)
	}
	w.Ops = []Op{{K: "handle", Pattern: p, HID: 101, Methods: pick(r, [][]string{{"GET"}, {"GET", "POST"}, {"DELETE"}})}}
	if r.Pct(70) {
		w.Ops = append(w.Ops, Op{K: "handle", Pattern: q, HID: 102, Methods: []string{"GET"}})
	}
	if r.Pct(40) {
		w.Ops = append(w.Ops, Op{K: "handle", Pattern: p, HID: 103, Methods: []string{"PUT"}}) // a second call for the same pattern
	}
	switch r.Intn(6) {
	case 0:
		w.Ops = append(w.Ops, Op{K: "remove", Pattern: p})
	case 1:
		for _, m := range []string{"GET", "POST", "DELETE", "PUT"} {
			w.Ops = append(w.Ops, Op{K: "remove", Pattern: p, Methods: []string{m}})
		}
	case 2:
		w.Ops = append(w.Ops, Op{K: "pclean", Pattern: root[:r.Range(2, len(root))]})
	case 3:
		w.Ops = append(w.Ops, Op{K: "pclean", Pattern: p[:r.Range(len(root), len(p))]})
	case 4:
		w.Ops = append(w.Ops, Op{K: "rclean", Pattern: p})
	case 5:
		w.Ops = append(w.Ops, Op{K: "clean"})
	}
	if r.Pct(80) {
		w.Ops = append(w.Ops, Op{K: "remove", Pattern: q})
	}
	w.Ops = append(w.Ops, Op{K: "handle", Pattern: twin, HID: 104, Methods: []string{"GET"}})
	// keep only what a model accepts, then the final call if the model says it must be rejected
	m := NewModel(w.Opts)
	var keep []Op
	for _, op := range w.Ops {
		if op.K == "handle" {
			if v, _ := m.HandleVerdict(op.Pattern, op.Methods); v != 1 {
				continue
			}
		}
		applyModel(m, &op)
		keep = append(keep, op)
	}
	w.Ops = keep
	last := Op{K: "badhandle", Pattern: p, HID: 5001, Methods: []string{pick(r, []string{"POST", "GET", "PATCH"})}}
	if v, _ := m.HandleVerdict(last.Pattern, last.Methods); v == -1 {
		w.Ops = append(w.Ops, last)
	}
	return w
}

func genC17(r *Rng, idx int, tier string) *World {
	if r.Pct(8) {
		return genC17Split(r)
	}
	if r.Pct(6) {
		return genC17Stale(r)
	}
	if r.Pct(5) {
		return genC17Memo(r)
	}
	mix := defaultMix
	mix.reqLo, mix.reqHi = 0, 1
	mix.pRemove, mix.pRemoveM = 8, 8
	w := genTableWorld(r, mix)
	// replay the generated history on a model and weave rejected calls in
	m := NewModel(w.Opts)
	var ops []Op
	hid := 5000
	everLive := map[string]bool{}
	for _, op := range w.Ops {
		if op.K == "handle" {
			// the base history was generated against a model without the woven-in twins
			if v, _ := m.HandleVerdict(op.Pattern, op.Methods); v != 1 {
				continue
			}
		}
		ops = append(ops, op)
		if !isAdmin(op.K) {
			continue
		}
		applyModel(m, &op)
		if op.K == "handle" {
			everLive[op.Pattern] = true
		}
		// a pattern that differs only in parameter names from a route that is no longer live
		// (removed entirely, or all its methods removed one by one) must be accepted
		if r.Pct(25) {
			var dead []string
			for p := range everLive {
				if m.Routes[p] == nil {
					dead = append(dead, p)
				}
			}
			sortStrings(dead)
			if len(dead) > 0 {
				if twin := renamePattern(r, pick(r, dead), w.Opts.Interceptors); twin != "" {
					hid++
					tw := Op{T: r.Intn(3), K: "handle", Pattern: twin, HID: hid, Methods: []string{pick(r, []string{"GET", "POST", "PUT"})}}
					if v, _ := m.HandleVerdict(tw.Pattern, tw.Methods); v == 1 {
						applyModel(m, &tw)
						everLive[twin] = true
						ops = append(ops, tw)
					}
				}
			}
		}
		if !r.Pct(45) {
			continue
		}
		hid++
		bad := Op{T: r.Intn(3), K: "badhandle", HID: hid}
		live := m.SortedPatterns()
		valid := func() string { return pick(r, []string{"POST", "PUT", "PATCH", "DELETE", "CONNECT", "GET"}) }
		reserved := []string{"HEAD", "OPTIONS"}
		if w.Opts.Trace {
			reserved = append(reserved, "TRACE")
		}
		insertAt := func(list []string, x string) []string {
			i := r.Intn(len(list) + 1)
			return append(append(append([]string{}, list[:i]...), x), list[i:]...)
		}
		freshList := func(pat string) []string {
			// 0-2 valid methods that the pattern does not have yet (sometimes up to 5: lists as long as Any's)
			var l []string
			have := strSetOfHandlers(m.Routes[pat])
			n := r.Intn(3)
			if r.Pct(25) {
				n = r.Range(4, 6)
				if !have["GET"] {
					l = append(l, "GET") // GET first, as in the library's own method table
				}
			}
			for i := n; i > 0; i-- {
				x := valid()
				if !have[x] && !contains(l, x) {
					l = append(l, x)
				}
			}
			return l
		}
		somePattern := func() string {
			if len(live) > 0 && r.Pct(60) {
				return pick(r, live)
			}
			if len(live) > 0 && r.Pct(60) {
				// a new pattern that shares nodes with a live one: same parameters (same names), another
				// literal tail after a common prefix - creating its node would split the live route's node
				if p, ok := ParsePattern(pick(r, live), w.Opts.Interceptors); ok && len(p.Tokens) > 1 {
					last := p.Tokens[len(p.Tokens)-1]
					if last.Kind == PLit && len(last.Text) >= 2 && last.Text[len(last.Text)-1] < 0x80 {
						k := r.Range(1, len(last.Text)-1)
						for k > 0 && last.Text[k-1] >= 0x80 {
							k--
						}
						if k > 0 {
							return strings.TrimSuffix(p.Raw, last.Text) + last.Text[:k] + pick(r, []string{"b", "batar", "d/e", "g"})
						}
					} else if last.Kind != PLit {
						return p.Raw + pick(r, []string{"/b", "/abatar", "-g"})
					}
				}
			}
			return "/fresh/" + pick(r, litLeaf) + "/{id}"
		}
		switch r.Intn(6) {
		case 0: // duplicate pattern+method, possibly after new valid ones
			if len(live) == 0 {
				continue
			}
			bad.Pattern = pick(r, live)
			have := sortedKeys(strSetOfHandlers(m.Routes[bad.Pattern]))
			bad.Methods = insertAt(freshList(bad.Pattern), pick(r, have))
			if r.Pct(25) {
				bad.Methods = nil // no list at all: the default list (Any) - a duplicate whenever the pattern has one of its methods
			}
		case 1: // reserved method somewhere in the list
			bad.Pattern = somePattern()
			bad.Methods = insertAt(freshList(bad.Pattern), pick(r, reserved))
		case 2: // unknown method
			bad.Pattern = somePattern()
			bad.Methods = insertAt(freshList(bad.Pattern), pick(r, []string{"BOGUS", "get", "", "PROPFIND", "Get", nearMethod(r), nearMethod(r)}))
		case 3: // listed twice
			bad.Pattern = somePattern()
			l := freshList(bad.Pattern)
			if len(l) == 0 {
				l = []string{valid()}
				if m.Routes[bad.Pattern] != nil && m.Routes[bad.Pattern].Methods[l[0]] != nil {
					continue
				}
			}
			bad.Methods = insertAt(l, l[0])
		case 4: // malformed pattern
			bad.Pattern = pick(r, badPatterns)
			bad.Methods = genMethods(r, w.Opts.Trace)
		case 5: // identical up to names to the only route
			if len(live) != 1 {
				continue
			}
			p := m.Routes[live[0]].P
			var sb strings.Builder
			changed := false
			for _, t := range p.Tokens {
				if t.Kind == PLit {
					sb.WriteString(t.Text)
					continue
				}
				changed = true
				name := t.Name + "z"
				if r.Pct(30) && !t.Ignore {
					name = "-" + t.Name
				}
				if t.Rule != "" {
					sb.WriteString("{" + name + ":" + t.Rule + "}")
				} else {
					sb.WriteString("{" + name + "}")
				}
			}
			if !changed {
				continue
			}
			bad.Pattern = sb.String()
			bad.Methods = []string{valid()}
		}
		if v, _ := m.HandleVerdict(bad.Pattern, bad.Methods); v != -1 {
			continue
		}
		ops = append(ops, bad)
	}
	w.Ops = ops
	return w
}

// nearMethod returns a method name that is not supported but close to one that is: one byte in another
// case or replaced, one byte more or less, title case - same length and first byte as a supported name
// more often than not.
func nearMethod(r *Rng) string {
	supported := []string{"GET", "POST", "DELETE", "PUT", "PATCH", "CONNECT", "TRACE", "HEAD", "OPTIONS"}
	for {
		b := []byte(pick(r, supported))
		switch r.Intn(7) {
		case 6:
			b = []byte(strings.ToLower(string(b)))
		case 0:
			i := r.Intn(len(b))
			b[i] += 'a' - 'A'
		case 1:
			i := 1 + r.Intn(len(b)-1)
			b[i] = byte('A' + r.Intn(26))
		case 2:
			b = append(b, pick(r, []string{"S", " ", "E", "\t"})...)
		case 3:
			b = b[:len(b)-1]
		case 4:
			for i := 1; i < len(b); i++ {
				b[i] += 'a' - 'A'
			}
		case 5:
			b = []byte(pick(r, []string{"PURGE", "LINK", "CHECKIN", "M-SEARCH", "PROPFIND", " GET", "GET,POST"}))
		}
		if !contains(supported, string(b)) {
			return string(b)
		}
	}
}

// renamePattern returns the pattern with every parameter renamed (sometimes with
// the '-' flag toggled); "" if it has no parameters.
func renamePattern(r *Rng, raw string, ics []string) string {
	p, ok := ParsePattern(raw, ics)
	if !ok {
		return ""
	}
	var sb strings.Builder
	changed := false
	for _, t := range p.Tokens {
		if t.Kind == PLit {
			sb.WriteString(t.Text)
			continue
		}
		changed = true
		name := t.Name + "r"
		if t.Ignore != r.Pct(25) {
			name = "-" + name
		}
		if r.Pct(30) { // same name, only the '-' flag differs
			name = t.Name
			if !t.Ignore {
				name = "-" + name
			}
		}
		if t.Rule != "" {
			sb.WriteString("{" + name + ":" + t.Rule + "}")
		} else {
			sb.WriteString("{" + name + "}")
		}
	}
	if !changed {
		return ""
	}
	return sb.String()
}

func init() {
	register(&PropImpl{ID: "C17", Gen: genC17,
		Exec: func(w *World, st *Stats) (*Violation, RunInfo) { return execTable(w, st, &c17Oracle{}) }})
}

// ---- C08: automatic HEAD and OPTIONS ----------------------------------------------------------

// genScript draws a handler write script.  Scripts conform to the
// http.ResponseWriter contract: WriteHeader at most once and never after a
// Write or Flush (net/http ignores such a call as "superfluous"; what a HEAD
// wrapper that defers the header should do with it is not stated anywhere).
// Header mutations after the first Write are legal (merely ineffective on the
// wire) and are generated.
func genScript(r *Rng) []WOp {
	n := r.Range(0, 6)
	var s []WOp
	hk := []string{"X-A", "X-B", "Content-Type", "Cache-Control", "Content-Length", "Etag"}
	committed := false
	for i := 0; i < n; i++ {
		switch r.Intn(9) {
		case 0, 1:
			s = append(s, WOp{Op: "set", K: pick(r, hk), V: pick(r, []string{"1", "text/plain", "7", "abc"})})
		case 2:
			s = append(s, WOp{Op: "add", K: pick(r, hk), V: pick(r, []string{"2", "x"})})
		case 3:
			s = append(s, WOp{Op: "del", K: pick(r, hk)})
		case 4:
			if !committed {
				s = append(s, WOp{Op: "status", Code: pick(r, []int{200, 201, 204, 404, 500})})
				committed = true
			}
		case 5, 6, 7:
			s = append(s, WOp{Op: "write", N: pick(r, []int{0, 1, 5, 17, 1024})})
			committed = true
		case 8:
			s = append(s, WOp{Op: "flush"})
			committed = true
		}
	}
	if s == nil {
		s = []WOp{{Op: "noop"}} // a handler that writes nothing (kept non-empty so that replay files round-trip)
	}
	return s
}

type c08Oracle struct{ noOracle }

func headerKey(h http.Header, skip string) string {
	var ks []string
	for k := range h {
		if k != skip {
			ks = append(ks, k)
		}
	}
	sort.Strings(ks)
	var sb strings.Builder
	for _, k := range ks {
		sb.WriteString(k + "=" + strings.Join(h[k], "|") + ";")
	}
	return sb.String()
}

func (c08Oracle) AfterAdmin(c *tableCtx, op *Op, pan any, applied bool) *Violation {
	mk := func(oracle, sig, detail string) *Violation {
		return &Violation{Prop: "C08", Oracle: oracle, Sig: sig, Detail: fmt.Sprintf("after %s: %s", op, detail)}
	}
	if op.K == "badhandle" {
		c.st.C("op_reject")
		if pan == nil {
			return mk("reserved-rejected", "reserved-accepted", "Handle with a reserved or unknown method was accepted")
		}
		return nil
	}
	for _, pat := range c.m.SortedPatterns() {
		mr := c.m.Routes[pat]
		path, _ := FixedWitness(mr.P)
		if o0 := c.probe("OPTIONS", path); o0.Zero {
			return mk("options-auto", "options-missing", fmt.Sprintf("OPTIONS %s on a live pattern reached CallFunc with the zero handler", path))
		} else if o0.Panic == "" && o0.Kind == K404 {
			// "OPTIONS ... cannot be removed while another method remains": the pattern is live in the model
			return mk("options-auto", "options-404", fmt.Sprintf("OPTIONS %s -> 404 although %s is live with methods %v", path, pat, sortedKeys(strSetOfHandlers(mr))))
		} else if o0.Panic == "" && o0.Pattern == pat && o0.Kind != KOptions {
			return mk("options-auto", "options-not-automatic", fmt.Sprintf("OPTIONS %s on live pattern %s -> %s", path, pat, o0.Key()))
		}
		og := c.probe("GET", path)
		if og.Panic != "" || og.Zero || og.Pattern != pat {
			continue // not dispatched here: C03's clauses
		}
		oh := c.probe("HEAD", path)
		if oh.Panic != "" || oh.Zero || oh.Pattern != pat {
			continue
		}
		gh := mr.Methods["GET"]
		if gh == nil {
			c.st.C("c08_head_without_get")
			if oh.Kind == KRoute {
				return mk("head-follows-get", "head-without-get", fmt.Sprintf("HEAD %s is served by h%d although GET is not registered", path, oh.HID))
			}
		} else {
			c.st.C("c08_head_with_get")
			if oh.Kind != KRoute || oh.HID != gh.HID {
				return mk("head-follows-get", "head-lost", fmt.Sprintf("GET is registered (h%d) but HEAD %s -> %s", gh.HID, path, oh.Key()))
			}
			if og.Kind == KRoute && og.HID == gh.HID {
				if og.Status != oh.Status {
					return mk("head-equals-get", "status-differs", fmt.Sprintf("%s: GET %d, HEAD %d", path, og.Status, oh.Status))
				}
				if a, b := headerKey(og.Live, "Content-Length"), headerKey(oh.Live, "Content-Length"); a != b {
					return mk("head-equals-get", "headers-differ", fmt.Sprintf("%s: GET headers %s, HEAD headers %s", path, a, b))
				}
				if oh.BodyLen != 0 {
					return mk("head-no-body", "head-body", fmt.Sprintf("%s: %d body bytes reached the connection of a HEAD request", path, oh.BodyLen))
				}
				// Content-Length when the handler never sent the header itself
				sent, total, wrote := false, 0, false
				for _, s := range c.scriptOf(gh.HID) {
					switch s.Op {
					case "status", "flush":
						sent = true
					case "set", "add", "del":
						if s.K == "Content-Length" {
							sent = true // the handler states the length itself
						}
					case "write":
						total += s.N
						wrote = true
					}
				}
				if !sent && wrote {
					c.st.C("c08_content_length_checked")
					if got := oh.Live.Get("Content-Length"); got != strconv.Itoa(total) {
						return mk("head-content-length", "content-length", fmt.Sprintf("%s: handler wrote %d bytes without sending the header, HEAD Content-Length=%q", path, total, got))
					}
				}
			}
		}
		oo := c.probe("OPTIONS", path)
		if oo.Zero || (oo.Panic == "" && oo.Pattern == pat && oo.Kind != KOptions) {
			return mk("options-auto", "options-missing", fmt.Sprintf("OPTIONS %s on a live pattern -> %s", path, oo.Key()))
		}
	}
	return nil
}

// OnReq: whatever happens inside the GET handler (including a recovered panic), a HEAD request
// delivers no body bytes to the connection.
func (c08Oracle) OnReq(c *tableCtx, op *Op, o *Obs) *Violation {
	if op.Req.Method == "HEAD" && o.BodyLen != 0 {
		return &Violation{Prop: "C08", Oracle: "head-no-body", Sig: "head-body", Detail: fmt.Sprintf("%s (faults %d): %d body bytes reached the connection of a HEAD request", op.Req, len(op.Faults), o.BodyLen)}
	}
	return nil
}

func (c *tableCtx) scriptOf(hid int) []WOp {
	for i := range c.w.Ops {
		if c.w.Ops[i].HID == hid && c.w.Ops[i].K == "handle" {
			if c.w.Ops[i].Script == nil {
				return []WOp{{Op: "write", N: 5}}
			}
			return c.w.Ops[i].Script
		}
	}
	return nil
}

func genC08(r *Rng, idx int, tier string) *World {
	mix := defaultMix
	mix.reqLo, mix.reqHi = 0, 1
	mix.pRemove, mix.pRemoveM = 8, 30
	mix.removeHead = true
	mix.poolLo, mix.poolHi = 3, 8
	w := genTableWorld(r, mix)
	if r.Pct(50) {
		w.Opts.Recovery = "status" // panicking handlers are then answered by the recovery option, through whatever writer the router hands it
	}
	var ops []Op
	var gets []string
	hid := 7000
	for _, op := range w.Ops {
		if op.K == "handle" {
			op.Script = genScript(r)
			if r.Pct(60) && !contains(op.Methods, "GET") && len(op.Methods) > 0 {
				op.Methods = []string{"GET"}
				if !w.Opts.Trace && r.Pct(25) {
					op.Methods = []string{"GET", "TRACE"} // TRACE registered by hand is an ordinary method
				}
			}
		}
		if isAdmin(op.K) && r.Pct(25) && len(gets) > 0 {
			// a HEAD (or GET) whose handler panics after writing part of its body: whatever the router
			// keeps per request (the HEAD wrapper's byte count) must not leak into the next request
			p, _ := ParsePattern(pick(r, gets), w.Opts.Interceptors)
			path, _ := FixedWitness(p)
			ops = append(ops, Op{T: 11, K: "req", Req: &Req{Method: pick(r, []string{"HEAD", "HEAD", "GET"}), Path: path},
				Faults: []*FaultSpec{{Site: pick(r, []string{"h:head", "h:route"}), Phase: "mid", Val: pick(r, []string{"str", "ptr", "err"})}}})
		}
		if op.K == "handle" && contains(op.Methods, "GET") {
			gets = append(gets, op.Pattern)
		}
		ops = append(ops, op)
		if isAdmin(op.K) && r.Pct(20) {
			hid++
			reserved := []string{"HEAD", "OPTIONS", "BOGUS", "head"}
			if w.Opts.Trace {
				reserved = append(reserved, "TRACE")
			}
			bad := []string{pick(r, reserved)}
			if r.Pct(35) {
				bad = []string{nearMethod(r)}
			}
			if r.Pct(40) { // a list as long as Any's, GET first, one reserved or unknown entry
				bad = []string{"GET", "POST", "PUT", "PATCH", "DELETE"}
				bad = bad[:r.Range(3, 5)]
				bad = append(bad, pick(r, reserved))
				if r.Pct(30) {
					bad = append(bad, "CONNECT")
				}
			}
			ops = append(ops, Op{K: "badhandle", Pattern: "/r/" + pick(r, litLeaf), HID: hid, Methods: bad})
		}
	}
	// methods may have been changed above: rebuild validity against a model and drop what became invalid
	m := NewModel(w.Opts)
	var keep []Op
	for _, op := range ops {
		if op.K == "handle" {
			if v, _ := m.HandleVerdict(op.Pattern, op.Methods); v != 1 {
				continue
			}
		}
		if isAdmin(op.K) && op.K != "badhandle" {
			applyModel(m, &op)
		}
		keep = append(keep, op)
	}
	w.Ops = keep
	return w
}

func init() {
	register(&PropImpl{ID: "C08", Gen: genC08,
		Exec: func(w *World, st *Stats) (*Violation, RunInfo) {
			if w.Opts.Recovery == "status" {
				return execTable(w, st, c08Oracle{}, mux.WithStatusRecovery(503))
			}
			return execTable(w, st, c08Oracle{})
		}})
}

// ---- C18: TRACE follows WithTrace -----------------------------------------------------------------

// SimBody serves a request body in seeded chunk sizes, including 0-byte reads.
type SimBody struct {
	data   []byte
	r      *Rng
	closed bool
	Reads  int
	Short  int
	Zero   int
}

func (b *SimBody) Read(p []byte) (int, error) {
	b.Reads++
	if len(b.data) == 0 {
		return 0, io.EOF
	}
	n := len(p)
	switch b.r.Intn(4) {
	case 0:
		n = 0
		b.Zero++
	case 1:
		n = 1
	case 2:
		n = b.r.Range(1, 7)
	}
	if n > len(p) {
		n = len(p)
	}
	if n > len(b.data) {
		n = len(b.data)
	}
	if n < len(p) && n < len(b.data) {
		b.Short++
	}
	copy(p, b.data[:n])
	b.data = b.data[n:]
	return n, nil
}

func (b *SimBody) Close() error { b.closed = true; return nil }

type c18Oracle struct{ noOracle }

func (c18Oracle) OnReq(c *tableCtx, op *Op, o *Obs) *Violation {
	q := op.Req
	if q.Method != "TRACE" || o.Panic != "" || o.Zero {
		return nil
	}
	mk := func(oracle, sig, detail string) *Violation {
		return &Violation{Prop: "C18", Oracle: oracle, Sig: sig, Detail: fmt.Sprintf("%s -> %s trace=%v | %s", q, o.Key(), o.Trace, detail)}
	}
	if c.m.Trace {
		c.st.C("c18_trace_any_path")
		if o.Kind != KTrace {
			return mk("trace-any-path", "trace-not-answered", "a TRACE handler is configured but another component answered")
		}
		want := reverseStr(c.m.Use)
		if strings.Join(o.Trace, ",") != strings.Join(want, ",") {
			return mk("trace-use-only", "trace-middlewares", fmt.Sprintf("want only the Use middlewares %v", want))
		}
		return nil
	}
	// ordinary method
	if q.Path == "*" || q.Path == "" {
		return nil
	}
	c.st.C("c18_trace_ordinary")
	adm := NewResolver(c.m.LivePatterns()).Resolve(q.Path)
	if len(adm) == 0 {
		if o.Kind != K404 {
			return mk("trace-ordinary", "trace-unexpected", "no live route matches: want 404")
		}
		return nil
	}
	if o.Kind == K404 || o.Kind == KTrace {
		return nil // reachability is C03's clause
	}
	if mr := c.m.Routes[o.Pattern]; mr != nil {
		if h := mr.Methods["TRACE"]; h != nil {
			if o.Kind != KRoute || o.HID != h.HID {
				return mk("trace-ordinary", "trace-registered-not-served", fmt.Sprintf("TRACE is registered by hand (h%d)", h.HID))
			}
		} else if o.Kind != K405 {
			return mk("trace-ordinary", "trace-not-405", "TRACE is not registered for this pattern: want 405")
		}
	}
	return nil
}

func (c18Oracle) AfterAdmin(c *tableCtx, op *Op, pan any, applied bool) *Violation {
	mk := func(oracle, sig, detail string) *Violation {
		return &Violation{Prop: "C18", Oracle: oracle, Sig: sig, Detail: fmt.Sprintf("after %s: %s", op, detail)}
	}
	if op.K == "badhandle" {
		c.st.C("op_reject")
		if pan == nil {
			return mk("trace-not-registrable", "trace-registered", "Handle(…, TRACE) was accepted although a TRACE handler is configured")
		}
		return nil
	}
	if !c.m.Trace {
		return nil
	}
	// TRACE is listed in every Allow set
	for _, pat := range c.m.SortedPatterns() {
		path, _ := FixedWitness(c.m.Routes[pat].P)
		for _, meth := range []string{"OPTIONS", "BOGUS"} {
			o := c.probe(meth, path)
			if o.Panic != "" || o.Zero || o.Pattern != pat {
				continue
			}
			c.st.C("c18_allow_checked")
			if !setOf(o.Allow)["TRACE"] {
				return mk("allow-lists-trace", "allow-without-trace", fmt.Sprintf("%s %s Allow=%s", meth, path, canonSet(o.Allow)))
			}
			if !strSet(o.Methods)["TRACE"] {
				return mk("allow-lists-trace", "methods-without-trace", fmt.Sprintf("%s Node().Methods()=%v", path, o.Methods))
			}
		}
	}
	o := c.probe("OPTIONS", "*")
	if o.Panic == "" && !o.Zero && o.Kind == KOptions && !setOf(o.Allow)["TRACE"] {
		return mk("allow-lists-trace", "star-without-trace", "OPTIONS * Allow="+canonSet(o.Allow))
	}
	rs := map[string][]string{}
	func() {
		defer func() { recover() }()
		rs = c.r.Routes()
	}()
	for k, v := range rs {
		if !strSet(v)["TRACE"] {
			return mk("allow-lists-trace", "routes-without-trace", fmt.Sprintf("Routes()[%s]=%v", k, v))
		}
	}
	return nil
}

func reverseStr(s []string) []string {
	r := make([]string, len(s))
	for i, x := range s {
		r[len(s)-1-i] = x
	}
	return r
}

func genC18(r *Rng, idx int, tier string) *World {
	if r.Pct(35) {
		return genTraceIO(r)
	}
	mix := defaultMix
	mix.trace = 60
	mix.pUse = 10
	mix.reqLo, mix.reqHi = 2, 5
	w := genTableWorld(r, mix)
	var ops []Op
	hid := 8000
	for _, op := range w.Ops {
		if op.K == "req" && r.Pct(50) {
			op.Req.Method = "TRACE"
		}
		ops = append(ops, op)
		if isAdmin(op.K) && w.Opts.Trace && r.Pct(15) {
			hid++
			ops = append(ops, Op{K: "badhandle", Pattern: "/tr/" + pick(r, litLeaf), HID: hid, Methods: pick(r, [][]string{{"TRACE"}, {"GET", "TRACE"}, {"TRACE", "POST"}})})
		}
	}
	w.Ops = ops
	return w
}

// Trace helper on the simulated wire: one to three calls in a row on the same process state; a call
// may meet a connection whose first Write fails (error, or the panic net/http uses for a dead peer).
// Whatever the helper keeps between calls must not show in the next dump.
func genTraceIO(r *Rng) *World {
	w := &World{Variant: "io"}
	n := 1
	if r.Pct(45) {
		n = r.Range(2, 3)
	}
	for c := 0; c < n; c++ {
		hdrs := map[string]string{}
		for i := r.Intn(4); i > 0; i-- {
			hdrs[pick(r, []string{"X-A", "Accept", "X-Html", "User-Agent", "X-Q"})] = pick(r, []string{"1", "<b>x</b>", "a&b", `"q"`, "it's", "text/html; q=0.8", "plain"})
		}
		body := ""
		for i := r.Intn(5); i > 0; i-- {
			body += pick(r, []string{"hello", "<script>", "&amp;", "\"", "'", "x=1&y=2", "\r\n", "日本", "\x00\xff", ">"})
		}
		op := Op{K: "tracehelper", Req: &Req{Method: pick(r, []string{"TRACE", "TRACE", "GET", "POST"}), Path: pick(r, []string{"/", "/a/<b>", "/x?y", "*", "/p&q"}), Host: pick(r, []string{"example.com", "", "h<o>st"}), Hdr: hdrs}, Args: []string{body}, B: r.Pct(60), N: int(r.U64() % 1000000)}
		if c < n-1 && r.Pct(70) {
			op.Name = pick(r, []string{"panic", "err"}) // this call's connection fails on its first Write
		}
		w.Ops = append(w.Ops, op)
	}
	return w
}

func execTraceIO(w *World, st *Stats) (*Violation, RunInfo) {
	info := RunInfo{Shape: worldShape(w), Nontrivial: true, Events: int64(len(w.Ops))}
	for i := range w.Ops {
		v, h := execTraceCall(&w.Ops[i], st)
		info.Hash = hashU(info.Hash, h)
		if v != nil {
			v.Step = i
			return v, info
		}
	}
	return nil, info
}

func execTraceCall(op *Op, st *Stats) (*Violation, uint64) {
	var info struct{ Hash uint64 }
	mk := func(oracle, sig, detail string) *Violation {
		return &Violation{Prop: "C18", Oracle: oracle, Sig: sig, Detail: fmt.Sprintf("Trace(w, %s body=%q withBody=%v): %s", op.Req, op.Args[0], op.B, detail)}
	}
	rec := &ReqRec{}
	req := buildRequest(*op.Req, rec)
	sb := &SimBody{data: []byte(op.Args[0]), r: NewRng(uint64(op.N))}
	req.Body = sb
	req.ContentLength = int64(len(op.Args[0]))
	if op.N%3 == 0 {
		req.ContentLength = -1 // unknown length: the body is still there to be dumped
	}
	conn := NewConn()
	conn.KeepBody = true
	if op.Name == "panic" || op.Name == "err" {
		conn.FailWrite, conn.FailMode = 1, op.Name
		st.C("trace_write_fault_" + op.Name)
	}
	var pan any
	func() {
		defer func() { pan = recover() }()
		mux.Trace(conn, req, op.B)
	}()
	helperWrote := conn.WroteHeader
	conn.Finish()
	st.CN("short_read", int64(sb.Short+sb.Zero))
	info.Hash = hashStr(hashStr(uint64(conn.Status), string(conn.Body)), headerKey(conn.Wire, ""))
	if pan != nil || !helperWrote || conn.FailWrite > 0 {
		return nil, info.Hash // a panic is C05's subject; a helper that reported an error wrote nothing; a failed connection shows nothing
	}
	if conn.Status != 200 {
		return mk("trace-helper-status", "status", fmt.Sprintf("status %d", conn.Status)), info.Hash
	}
	if ct := conn.Wire.Get("Content-Type"); ct != "message/http" {
		return mk("trace-helper-content-type", "content-type-not-sent", fmt.Sprintf("Content-Type on the wire is %q (live map: %q)", ct, conn.hdr.Get("Content-Type"))), info.Hash
	}
	raw := string(conn.Body)
	for i := 0; i < len(raw); i++ {
		switch raw[i] {
		case '<', '>', '"', '\'':
			return mk("trace-helper-escaped", "unescaped-byte", fmt.Sprintf("body contains an unescaped %q", raw[i])), info.Hash
		}
	}
	text := html.UnescapeString(raw)
	line := fmt.Sprintf("%s %s HTTP/1.1", op.Req.Method, op.Req.Path)
	if !strings.HasPrefix(text, line) {
		return mk("trace-helper-dump", "request-line-not-first", fmt.Sprintf("dump %q does not start with the request line %q", text, line)), info.Hash
	}
	if !strings.Contains(text, line) {
		return mk("trace-helper-dump", "request-line-missing", fmt.Sprintf("dump %q lacks request line %q", text, line)), info.Hash
	}
	for k, v := range op.Req.Hdr {
		if !strings.Contains(text, http.CanonicalHeaderKey(k)+": "+v) {
			return mk("trace-helper-dump", "header-missing", fmt.Sprintf("dump %q lacks header %s: %s", text, k, v)), info.Hash
		}
	}
	body := op.Args[0]
	if i := strings.Index(text, "\r\n\r\n"); i < 0 {
		return mk("trace-helper-dump", "no-header-end", fmt.Sprintf("dump %q has no blank line after the headers", text)), info.Hash
	} else if after := text[i+4:]; op.B && after != body {
		return mk("trace-helper-body", "body-missing", fmt.Sprintf("body requested: dump carries %q after the headers, request body was %q", after, body)), info.Hash
	} else if !op.B && after != "" {
		return mk("trace-helper-body", "body-included", fmt.Sprintf("body not requested but the dump carries %q after the headers", after)), info.Hash
	}
	return nil, info.Hash
}

func init() {
	register(&PropImpl{ID: "C18", Gen: genC18,
		Exec: func(w *World, st *Stats) (*Violation, RunInfo) {
			if w.Variant == "io" {
				return execTraceIO(w, st)
			}
			return execTable(w, st, c18Oracle{})
		}})
}

// ---- C02: documented resolution priority (add-only) --------------------------------------------------

func genC02(r *Rng, idx int, tier string) *World {
	poolExtras = true
	defer func() { poolExtras = false }()
	w := &World{}
	w.Opts = RouterOpts{Name: "r", Interceptors: GenICs(r)}
	w.Pool = genPoolCfg(r)
	pool := GenPool(r, r.Range(2, 14), w.Opts.Interceptors)
	var pats []*Pattern
	// registrar tasks: the patterns are partitioned over 1-4 registrars and the
	// scheduler's interleaving of the registrars is the registration order
	nReg := r.Range(1, 4)
	queues := make([][]string, nReg)
	for _, p := range pool {
		k := r.Intn(nReg)
		queues[k] = append(queues[k], p)
		pp, _ := ParsePattern(p, w.Opts.Interceptors)
		pats = append(pats, pp)
	}
	hid := 100
	for {
		var nonEmpty []int
		for i, q := range queues {
			if len(q) > 0 {
				nonEmpty = append(nonEmpty, i)
			}
		}
		if len(nonEmpty) == 0 {
			break
		}
		k := pick(r, nonEmpty)
		hid++
		w.Ops = append(w.Ops, Op{T: k, K: "handle", Pattern: queues[k][0], HID: hid, Methods: []string{"GET"}})
		queues[k] = queues[k][1:]
	}
	for _, p := range GenPaths(r, pats, r.Range(20, 50)) {
		w.Ops = append(w.Ops, Op{T: 10, K: "req", Req: &Req{Method: "GET", Path: p}})
	}
	return w
}

type c02Oracle struct {
	noOracle
	res *Resolver
}

func (o *c02Oracle) AfterAdmin(c *tableCtx, op *Op, pan any, applied bool) *Violation {
	o.res = nil
	return nil
}

func (o *c02Oracle) OnReq(c *tableCtx, op *Op, ob *Obs) *Violation {
	q := op.Req
	if ob.Panic == "nontermination" {
		return &Violation{Prop: "C02", Oracle: "terminates", Sig: "non-termination", Detail: fmt.Sprintf("patterns %v | %s executed more than %d statements without answering", c.m.Order, q, requestBudget)}
	}
	if ob.Panic != "" || ob.Zero || q.Path == "" || q.Path == "*" {
		return nil
	}
	if o.res == nil {
		o.res = NewResolver(c.m.LivePatterns())
	}
	adm := o.res.Resolve(q.Path)
	c.st.C("c02_paths_resolved")
	mk := func(sig, detail string) *Violation {
		return &Violation{Prop: "C02", Oracle: "reference-resolver", Sig: sig, Detail: fmt.Sprintf("patterns %v | %s -> %s | admissible %v | %s", c.m.Order, q, ob.Key(), outcomeKeys(adm), detail)}
	}
	if len(adm) == 0 {
		c.st.C("c02_expect_404")
		if ob.Kind != K404 {
			return mk("served-but-no-route", "the documented procedure finds no route")
		}
		return nil
	}
	if len(adm) > 1 {
		c.st.C("c02_ties")
	}
	if ob.Kind == K404 {
		return mk("404-but-route-exists", "the documented procedure finds a route")
	}
	for _, a := range adm {
		if a.Pattern != ob.Pattern {
			continue
		}
		same := true
		for k, v := range a.Params {
			if got, ok := ob.Params[k]; !ok || got != v {
				same = false
			}
		}
		if same {
			return nil
		}
	}
	for _, a := range adm {
		if a.Pattern == ob.Pattern {
			return mk("wrong-values", "right route, wrong parameter values")
		}
	}
	return mk("wrong-route", "a route outside the admissible set won")
}

func init() {
	register(&PropImpl{ID: "C02", Gen: genC02,
		Exec: func(w *World, st *Stats) (*Violation, RunInfo) { return execTable(w, st, &c02Oracle{}) }})
	_ = simrt.KOp
}
