package main

import (
	"net/http"
	"bytes"
	"encoding/json"
	"fmt"
	"os"
	"os/exec"
	"sort"
	"strings"

	mux "github.com/issue9/mux/v9"
	"github.com/issue9/mux/v9/simrt"
	"github.com/issue9/mux/v9/types"
)

// C07: instances are isolated; a quiescent router serves concurrently.
//
// Every C07 world runs cold (no warm-up of process-wide lazily filled state) and
// alone in a fresh process, because first use of shared state is exactly what
// variants b and d examine.
//
//	b  2-3 distinct instances (Router, locked Router, Hosts, Group), one owner task each
//	c  one quiescent router, 2-6 client tasks, adversarial context pool
//	d  a fresh router after arbitrary prior activity vs. the same router built first thing (child process)

// instance script ops: K in {handle, remove, clean, req, routes, hadd, hdel, hmatch, gnew, greq}
type instance struct {
	kind  string
	env   *Env
	r     *mux.Router[*Comp]
	hosts *mux.Hosts
	g     *mux.Group[*Comp]
}

// sharedGroup is the group that all "grouter" instances of the world being executed belong to (nil: every
// such instance gets a group of its own, which is what the solo replicas use).  Routers of one group are
// distinct Router instances: Group.Add hands each of them the group's middlewares, after which nothing
// of the group may be reachable from a router's own mutations.
var sharedGroup *mux.Group[*Comp]

func newGroupWithUse() *mux.Group[*Comp] {
	env := NewEnv()
	env.Quiet = true // called from several tasks: no factory log, fixed builder ids
	g := mux.NewGroup[*Comp](env.Call, env.Group404(idG404), env.NotAllowedBuilder(id405), env.OptionsBuilder(idOptions))
	g.Use(env.MWs("G0", "G1")...)
	return g
}

func newInstance(kind string, n int) *instance {
	in := &instance{kind: kind, env: NewEnv()}
	name := fmt.Sprintf("i%d", n)
	switch kind {
	case "router":
		in.r = NewSimRouter(in.env, RouterOpts{Name: name})
	case "lrouter":
		in.r = NewSimRouter(in.env, RouterOpts{Name: name, Lock: true})
	case "trouter":
		in.r = NewSimRouter(in.env, RouterOpts{Name: name, Trace: true})
	case "irouter": // same rule names, but here they are interceptors
		in.r = NewSimRouter(in.env, RouterOpts{Name: name, Interceptors: []string{"digit", "word"}})
	case "hosts":
		in.hosts = mux.NewHosts(false)
	case "grouter":
		g := sharedGroup
		if g == nil {
			g = newGroupWithUse()
		}
		in.env.Quiet = true
		in.r = g.New(name, nil)
	case "group":
		in.g = mux.NewGroup[*Comp](in.env.Call, in.env.Group404(idG404), in.env.NotAllowedBuilder(id405), in.env.OptionsBuilder(idOptions), optBase...)
		in.r = in.g.New(name, nil, mux.WithURLDomain("https://"+name+".example"))
	}
	return in
}

func (in *instance) do(op *Op) (out string) {
	defer func() {
		if p := recover(); p != nil {
			out = "panic(" + classifyPanic(p) + ")"
			if strings.HasPrefix(out, "panic(other") {
				out = "rejected"
			}
		}
	}()
	switch op.K {
	case "handle", "remove", "clean", "use":
		if in.r == nil {
			return "n/a"
		}
		if pan := applyAdmin(in.env, in.r, op); pan != nil {
			panic(pan)
		}
		return "ok"
	case "req":
		if in.g != nil {
			o := Serve(in.g, *op.Req, nil, nil)
			return o.Key()
		}
		if in.r == nil {
			return "n/a"
		}
		o := Serve(in.r, *op.Req, nil, nil)
		if in.kind == "grouter" {
			return o.Key() + " mw=" + strings.Join(o.Trace, ",")
		}
		return o.Key()
	case "routes":
		if in.r == nil {
			return "n/a"
		}
		return routesKey(in.r.Routes())
	case "hadd":
		if in.hosts == nil {
			return "n/a"
		}
		in.hosts.Add(op.Pattern)
		return "ok"
	case "hdel":
		if in.hosts == nil {
			return "n/a"
		}
		in.hosts.Delete(op.Pattern)
		return "ok"
	case "gnew2": // another router built while other instances are being served
		if in.g == nil {
			return "n/a"
		}
		r2 := in.g.New(op.Name, mux.MatcherFunc(func(*http.Request, *types.Context) bool { return false }))
		return "ok " + r2.Name()
	case "hreg":
		if in.hosts == nil {
			return "n/a"
		}
		in.hosts.RegisterInterceptor(interceptorFunc(op.Name), op.Name)
		return "ok"
	case "syntax": // package-level helpers: they parse with the package's own, empty, interceptor set
		return fmt.Sprint(mux.CheckSyntax(op.Pattern) == nil)
	case "pkgurl":
		u, err := mux.URL(op.Pattern, op.Params)
		return fmt.Sprint(u, err == nil)
	case "hmatch":
		if in.hosts == nil {
			return "n/a"
		}
		ok, ps, pan := hostMatch(in.hosts, op.Req.Host)
		if pan != nil {
			panic(pan)
		}
		return fmt.Sprint(ok, fmtParams(ps))
	}
	return "n/a"
}

var isoPats = []string{"/a", "/b/{id}", "/c/{id:\\d+}", "/a/b", "/d", "/e", "/f", "/g", "/b/{id}/x", "/w/{id:digit}", "/w/{name:word}/y", "/c/{-id:\\d+}", "/r/{uid:\\d+}/raw", "/r/{-uid:\\d+}/raw", "/b/{-id}/x"}

func genInstanceScript(r *Rng, kind string, t int, n int) []Op {
	var ops []Op
	hid := (t + 1) * 1000
	for i := 0; i < n; i++ {
		op := Op{T: t}
		if kind == "hosts" {
			switch r.Intn(6) {
			case 0, 1:
				op.K, op.Pattern = "hadd", pick(r, []string{"a.com", "b.com", "{sub}.c.com", "d.com", "e.com", "f.com", "{n:\\d+}.g.com", "{n:digit}.h.com", "{w:word}.i.com"})
			case 2:
				op.K, op.Pattern = "hdel", pick(r, []string{"a.com", "b.com", "d.com"})
			case 3:
				// an interceptor registered on this instance only; the same rule text is a regexp elsewhere
				op.K, op.Name = "hreg", pick(r, []string{"digit", "word"})
			default:
				op.K, op.Req = "hmatch", &Req{Host: pick(r, []string{"a.com", "x.c.com", "7.g.com", "zz.com", "B.com:80", "42.h.com", "digit.h.com", "ab.i.com", "word.i.com"})}
			}
			ops = append(ops, op)
			continue
		}
		if kind == "grouter" && r.Pct(22) {
			op.K, op.MW = "use", []string{fmt.Sprintf("R%d_%d", t, i)} // Router.Use on a router that belongs to a group
			ops = append(ops, op)
			continue
		}
		if kind == "group" && r.Pct(12) {
			op.K, op.Name = "gnew2", fmt.Sprintf("x%d-%d", t, i)
			ops = append(ops, op)
			continue
		}
		if r.Pct(8) {
			if r.Pct(50) {
				op.K, op.Pattern = "syntax", pick(r, []string{"/x/{id:digit}", "/x/{id:word}/y", "/x/{id:[}", "/x/{id}"})
			} else {
				op.K, op.Pattern, op.Params = "pkgurl", pick(r, []string{"/x/{id:digit}", "/x/{id:word}/y", "/x/{id}"}), map[string]string{"id": pick(r, []string{"7", "ab", "digit"})}
			}
			ops = append(ops, op)
			continue
		}
		switch k := r.Intn(10); {
		case k < 5:
			hid++
			op.K, op.Pattern, op.HID = "handle", pick(r, isoPats), hid
			op.Methods = genMethods(r, kind == "trouter")
		case k < 6:
			op.K, op.Pattern = "remove", pick(r, isoPats)
			if r.Pct(50) {
				op.Methods = []string{pick(r, anyMethods)}
			}
		case k < 7:
			op.K = "routes"
		default:
			p, _ := ParsePattern(pick(r, isoPats), []string{"digit", "word"})
			path, _ := p.Witness(r)
			op.K = "req"
			op.Req = &Req{Method: pick(r, []string{"GET", "POST", "OPTIONS", "HEAD", "BOGUS"}), Path: path}
			if r.Pct(15) {
				op.Req = &Req{Method: "OPTIONS", Path: "*"}
			}
		}
		ops = append(ops, op)
	}
	return ops
}

func genC07(r *Rng, idx int, tier string) *World {
	w := &World{Extra: map[string]string{}}
	w.Pool = genPoolCfg(r)
	w.Sim = genSim(r)
	switch k := r.Intn(10); {
	case k < 4:
		w.Variant = "b"
		n := r.Range(2, 3)
		var kinds []string
		for t := 0; t < n; t++ {
			kind := pick(r, []string{"router", "router", "lrouter", "trouter", "irouter", "hosts", "group", "grouter", "grouter"})
			kinds = append(kinds, kind)
			w.Tasks = append(w.Tasks, genInstanceScript(r, kind, t, r.Range(2, 6)))
		}
		w.Extra["kinds"] = strings.Join(kinds, ",")
	case k < 8 && r.Pct(45):
		// c with a generated history: the router was built by any sequence of Handle/Remove/Clean (often
		// ending in a removal, on pools with five or more literal siblings), and is then only served
		w.Variant = "c"
		mix := defaultMix
		mix.reqLo, mix.reqHi = 10, 18
		mix.pRemove, mix.pRemoveM, mix.pClean, mix.pPClean = 16, 10, 4, 5
		tw := genTableWorld(r, mix)
		w.Opts = tw.Opts
		w.Opts.Name = "q"
		w.Pool.Fresh, w.Pool.Newest, w.Pool.Oldest, w.Pool.Rand, w.Pool.Drop = pick(r, []int{0, 1}), 4, 1, 2, pick(r, []int{0, 15})
		var reqs []Op
		var handled []string
		for _, op := range tw.Ops {
			if isAdmin(op.K) {
				op.T = 0
				w.Setup = append(w.Setup, op)
				if op.K == "handle" {
					handled = append(handled, op.Pattern)
				}
			} else if op.K == "req" {
				reqs = append(reqs, op)
			}
		}
		if len(handled) > 0 && r.Pct(50) {
			w.Setup = append(w.Setup, Op{K: "remove", Pattern: pick(r, handled)})
		}
		if len(reqs) == 0 {
			reqs = append(reqs, Op{K: "req", Req: &Req{Method: "GET", Path: "/"}})
		}
		nT := r.Range(2, 6)
		for t := 0; t < nT; t++ {
			var ops []Op
			for i := r.Range(1, 4); i > 0; i-- {
				q := reqs[r.Intn(len(reqs))]
				rq := *q.Req
				ops = append(ops, Op{T: t, K: "req", Req: &rq}) // Params nil: own parameters are checked against the sequential replica only
			}
			w.Tasks = append(w.Tasks, ops)
		}
	case k < 8:
		w.Variant = "c"
		w.Opts = RouterOpts{Name: "q", Lock: r.Pct(50), Interceptors: []string{"digit"}, Trace: r.Pct(30), CORS: pick(r, []string{"", "list", "list", "cred"})}
		w.Pool.Fresh, w.Pool.Newest, w.Pool.Oldest, w.Pool.Rand, w.Pool.Drop = pick(r, []int{0, 1}), 4, 1, 2, pick(r, []int{0, 15})
		pats := []string{"/u/{id}", "/u/{id}/p/{page:digit}", "/s/{name}.html", "/a", "/t/{x}/{y}/{z}", "/{top}"}
		hid := 100
		for _, p := range pats[:r.Range(3, len(pats))] {
			hid++
			w.Setup = append(w.Setup, Op{K: "handle", Pattern: p, HID: hid, Methods: []string{"GET", "POST"}})
		}
		nT := r.Range(2, 6)
		uniq := 0
		for t := 0; t < nT; t++ {
			var ops []Op
			for i := r.Range(1, 4); i > 0; i-- {
				sp := w.Setup[r.Intn(len(w.Setup))].Pattern
				p, _ := ParsePattern(sp, w.Opts.Interceptors)
				vals := map[string]string{}
				for _, tk := range p.Tokens {
					if tk.Kind != PLit {
						uniq++
						vals[tk.Name] = fmt.Sprintf("%d", 1000+uniq) // globally unique parameter values
					}
				}
				q := &Req{Method: pick(r, []string{"GET", "POST", "HEAD", "OPTIONS", "PUT"}), Path: p.Fill(vals)}
				if w.Opts.CORS != "" && r.Pct(50) { // a CORS preflight: serving must stay read-only on the router
					q.Method = "OPTIONS"
					q.Hdr = map[string]string{"Origin": "https://a.com", "Access-Control-Request-Method": "GET", "Access-Control-Request-Headers": pick(r, []string{"content-type", "Content-Type", "X-Token, Content-Type", "x-other"})}
				}
				op := Op{T: t, K: "req", Req: q, Pattern: sp, Params: vals}
				if r.Pct(30) {
					// the handler itself sends a request through the same router (an internal redirect or
					// sub-request): nested use of the context pool; its own parameters must survive it
					np, _ := ParsePattern(w.Setup[r.Intn(len(w.Setup))].Pattern, w.Opts.Interceptors)
					nv := map[string]string{}
					for _, tk := range np.Tokens {
						if tk.Kind != PLit {
							uniq++
							nv[tk.Name] = fmt.Sprintf("%d", 1000+uniq)
						}
					}
					op.Args = []string{pick(r, []string{"GET", "POST", "HEAD", "OPTIONS", "PUT"}), np.Fill(nv)}
				}
				ops = append(ops, op)
			}
			w.Tasks = append(w.Tasks, ops)
		}
	case k < 9 && r.Pct(50):
		// g: a quiescent Group whose routers sit behind composite matchers (which snapshot and restore
		// request state when they reject), served by concurrent clients
		w.Variant = "g"
		w.Pool.Fresh, w.Pool.Newest, w.Pool.Oldest, w.Pool.Rand, w.Pool.Drop = pick(r, []int{0, 1}), 4, 1, 2, pick(r, []int{0, 15})
		specs := []string{
			"and(pv[ver,v1] | hosts[{sub}.c.com])",
			"and(hosts[{sub}.c.com] | hv[hver,1,3])",
			"or(and(pv[v,v2] | hosts[b.com]) | hosts[{sub}.d.com])",
			"and(or(hosts[a.com] | hosts[{sub}.e.com]) | pv[,v1,v2])",
			"hosts[{any}]",
			// a composite that rejects *after* parameters were captured outside it, inside an Or that goes on
			"and(hosts[{sub}.c.com] | or(and(pv[ver,v1] | hv[hver,1]) | pv[,v1,v2,v3]))",
			"and(hosts[{sub}.d.com] | or(and(hv[hver,3] | pv[v,v2]) | hosts[{any}]))",
		}
		shuffle(r, specs)
		hid := 100
		nR := r.Range(2, 4)
		for i := 0; i < nR; i++ {
			name := fmt.Sprintf("g%d", i)
			w.Setup = append(w.Setup, Op{K: "gnew", Name: name, Args: []string{specs[i]}})
			for _, p := range []string{"/x/{id}", "/y"} {
				hid++
				w.Setup = append(w.Setup, Op{K: "handle", Name: name, Pattern: p, HID: hid, Methods: []string{"GET"}})
			}
		}
		nT := r.Range(2, 5)
		uniq := 0
		for t := 0; t < nT; t++ {
			var ops []Op
			for i := r.Range(1, 4); i > 0; i-- {
				uniq++
				q := Req{Method: "GET",
					Path: pick(r, []string{"", "/v1", "/v2", "/v3"}) + pick(r, []string{fmt.Sprintf("/x/%d", 1000+uniq), "/y", "/nope"}),
					Host: pick(r, []string{fmt.Sprintf("s%d.c.com", uniq), "a.com", "b.com", fmt.Sprintf("t%d.d.com", uniq), fmt.Sprintf("u%d.e.com", uniq), "zzz.org"})}
				if r.Pct(50) {
					q.Hdr = map[string]string{"Accept": pick(r, []string{"application/json; version=1", "application/json; version=3", "application/json; version=9"})}
				}
				ops = append(ops, Op{T: t, K: "req", Req: &q})
			}
			w.Tasks = append(w.Tasks, ops)
		}
	default:
		w.Variant = "d"
		// prior activity: 1-3 other instances, sequential scripts
		n := r.Range(1, 3)
		var kinds []string
		for t := 0; t < n; t++ {
			kind := pick(r, []string{"router", "trouter", "lrouter", "irouter", "hosts", "group"})
			kinds = append(kinds, kind)
			w.Tasks = append(w.Tasks, genInstanceScript(r, kind, t, r.Range(1, 6)))
		}
		w.Extra["kinds"] = strings.Join(kinds, ",")
		// the observed router R*: recipe + probes
		w.Opts = RouterOpts{Name: "star", Trace: r.Pct(40), Lock: r.Pct(30)}
		if r.Pct(40) {
			w.Opts.Interceptors = []string{"digit"}
		}
		hid := 9000
		for i := r.Range(0, 4); i > 0; i-- {
			hid++
			op := Op{K: "handle", Pattern: pick(r, isoPats), HID: hid, Methods: genMethods(r, w.Opts.Trace)}
			w.Setup = append(w.Setup, op)
		}
	}
	return w
}

// optBase is the caller-side option buffer of variant d: one backing array with
// spare capacity that the test program uses for all its option lists
// ("base options + extra" idiom).  A callee that appends to a caller's slice
// instead of copying it writes into this array.
var optBase = func() []mux.Option {
	b := make([]mux.Option, 2, 8)
	b[0] = mux.WithURLDomain("https://base.example")
	// one Option value applied to every group (and by Group.New to every router of a group): whatever an
	// option builds per application must not be shared between the routers it was applied to
	b[1] = mux.WithCORS([]string{"https://a.com"}, []string{"X-Token"}, []string{"X-Exp"}, 60, false)
	return b
}()

// observeStar builds R* from the recipe and renders a fixed observation log.
// starOpts was built (from optBase) before any prior activity ran.
func observeStar(w *World, starOpts []mux.Option) []string {
	env := NewEnv()
	name := w.Opts.Name
	r := mux.NewRouter[*Comp](name, env.Call, env.NotFound(id404), env.NotAllowedBuilder(id405), env.OptionsBuilder(idOptions), append(w.Opts.muxOptions(env), starOpts...)...)
	var lines []string
	// first observation before anything is registered
	o := Serve(r, Req{Method: "OPTIONS", Path: "*"}, nil, nil)
	lines = append(lines, "fresh OPTIONS * -> "+o.Key())
	for i := range w.Setup {
		pan := applyAdmin(env, r, &w.Setup[i])
		lines = append(lines, fmt.Sprintf("%s -> %v", w.Setup[i].K, pan != nil))
	}
	lines = append(lines, "routes "+routesKey(r.Routes()))
	for _, raw := range isoPats {
		p, _ := ParsePattern(raw, []string{"digit", "word"})
		path, _ := FixedWitness(p)
		for _, m := range []string{"GET", "POST", "HEAD", "OPTIONS", "BOGUS", "TRACE"} {
			o := Serve(r, Req{Method: m, Path: path}, nil, nil)
			lines = append(lines, fmt.Sprintf("%s %s -> %s node-allow=%s methods=%v", m, path, o.Key(), canonSet(o.AllowNode), sortedCopy(o.Methods)))
		}
		u, err := r.URL(true, raw, map[string]string{"id": "5"})
		lines = append(lines, fmt.Sprintf("url %s -> %q %v", raw, u, err != nil))
	}
	o = Serve(r, Req{Method: "OPTIONS", Path: "*"}, nil, nil)
	lines = append(lines, "OPTIONS * -> "+o.Key())
	return lines
}

// soloMain is the child process of variant d: R* built first thing in a fresh process.
func soloMain() {
	var w World
	if err := json.NewDecoder(os.Stdin).Decode(&w); err != nil {
		fatal(2, "solo: %v", err)
	}
	simrt.SetPoolCfg(w.Pool)
	b, _ := json.Marshal(observeStar(&w, append(optBase, mux.WithURLDomain("https://star.example"))))
	os.Stdout.Write(b)
}

func execC07(w *World, st *Stats) (*Violation, RunInfo) {
	simrt.SetPoolCfg(w.Pool)
	info := RunInfo{Shape: worldShape(w)}
	st.C("variant_" + w.Variant)
	mk := func(oracle, sig, detail string) *Violation {
		return &Violation{Prop: "C07", Oracle: oracle, Sig: sig, Detail: "variant " + w.Variant + ": " + detail}
	}
	kinds := strings.Split(w.Extra["kinds"], ",")
	switch w.Variant {
	case "b":
		ins := make([]*instance, len(w.Tasks))
		sharedGroup = nil
		if contains(kinds, "grouter") {
			sharedGroup = newGroupWithUse() // all routers-of-a-group of this world are built by one group, before the tasks start
			st.C("routers_of_one_group")
		}
		for t := range w.Tasks {
			ins[t] = newInstance(kinds[t], t)
		}
		sharedGroup = nil
		logs, sw := runTasks(w, func(task int, op *Op) string { return ins[task].do(op) })
		info.Interleave, info.Events, info.Sched = sw.Hash(), sw.Steps(), sw.Recorded()
		info.Shape = hashU(info.Shape, sw.Hash())
		info.Hash = foldLogs(sw.Hash(), logs)
		info.Nontrivial = sw.Preempts > 0
		st.CN("preempt", sw.Preempts)
		if sw.WasAborted() {
			if sw.AbortReason == "deadlock" {
				return mk("deadlock", "deadlock", "tasks that own distinct instances block each other"+describeHistory(logs)), info
			}
			st.Inconclusive["cap"]++
			return nil, info
		}
		for _, t := range sw.Tasks() {
			if t.Panic != nil {
				return mk("task-panic", "task-panic", fmt.Sprintf("task %s died: %v", t.Name, t.Panic)), info
			}
		}
		// each task's log equals the log of the same script run solo on a replica
		for t := range w.Tasks {
			solo := newInstance(kinds[t], t)
			k := 0
			for _, l := range logs {
				if l.Task != t {
					continue
				}
				want := solo.do(&w.Tasks[t][k])
				k++
				if want != l.Out {
					return mk("solo-replica", "depends-on-other-instance", fmt.Sprintf("instance %d (%s) op %s answered %s next to other instances and %s alone", t, kinds[t], l.Op, l.Out, want)), info
				}
			}
		}
		return nil, info
	case "c":
		env := NewEnv()
		r := NewSimRouter(env, w.Opts)
		for i := range w.Setup {
			applyAdmin(env, r, &w.Setup[i])
		}
		type seen struct{ first, second map[string]string }
		results := make([][]string, len(w.Tasks))
		logs, sw := runTasks(w, func(task int, op *Op) string {
			var s seen
			nested := ""
			o := Serve(r, *op.Req, nil, func(rec *ReqRec, route types.Route) {
				s.first = snapshotParams(route.Params())
				simrt.Point(simrt.KUser) // other requests run here
				if len(op.Args) == 2 {
					in := Serve(r, Req{Method: op.Args[0], Path: op.Args[1]}, nil, nil)
					nested = " nested=" + in.Key()
				}
				simrt.Point(simrt.KUser)
				s.second = snapshotParams(route.Params())
			})
			out := o.Key() + nested
			if op.Params == nil {
				if fmtParams(s.first) != fmtParams(s.second) {
					out = fmt.Sprintf("viol:foreign-params:request %s saw %s on entry and %s after yielding", op.Req, fmtParams(s.first), fmtParams(s.second))
				}
			} else if o.Kind == KRoute || o.Kind == KOptions || o.Kind == K405 {
				want := fmtParams(op.Params)
				if fmtParams(s.first) != want || fmtParams(s.second) != want {
					out = fmt.Sprintf("viol:foreign-params:request %s must see %s, saw %s on entry and %s after yielding", op.Req, want, fmtParams(s.first), fmtParams(s.second))
				}
			}
			results[task] = append(results[task], out)
			return out
		})
		info.Interleave, info.Events, info.Sched = sw.Hash(), sw.Steps(), sw.Recorded()
		info.Shape = hashU(info.Shape, sw.Hash())
		info.Hash = foldLogs(sw.Hash(), logs)
		info.Nontrivial = sw.Preempts > 0
		st.CN("preempt", sw.Preempts)
		if sw.WasAborted() {
			if sw.AbortReason == "deadlock" {
				return mk("deadlock", "deadlock", "concurrent requests on a quiescent router block each other"), info
			}
			st.Inconclusive["cap"]++
			return nil, info
		}
		for _, t := range sw.Tasks() {
			if t.Panic != nil {
				return mk("task-panic", "task-panic", fmt.Sprintf("task %s died: %v", t.Name, t.Panic)), info
			}
		}
		// sequential replica for handler identity / status
		simrt.SetPoolCfg(simrt.PoolCfg{Fresh: 1, Drop: 100})
		env2 := NewEnv()
		r2 := NewSimRouter(env2, w.Opts)
		for i := range w.Setup {
			applyAdmin(env2, r2, &w.Setup[i])
		}
		for _, l := range logs {
			if strings.HasPrefix(l.Out, "viol:") {
				parts := strings.SplitN(l.Out, ":", 3)
				return mk("own-params", parts[1], parts[2]), info
			}
			nk := ""
			want := Serve(r2, *l.Op.Req, nil, func(*ReqRec, types.Route) {
				if len(l.Op.Args) == 2 {
					in := Serve(r2, Req{Method: l.Op.Args[0], Path: l.Op.Args[1]}, nil, nil)
					nk = " nested=" + in.Key()
					st.C("nested_request")
				}
			})
			wantKey := want.Key() + nk
			if wantKey != l.Out {
				return mk("sequential-replica", "differs-from-sequential", fmt.Sprintf("%s answered %s concurrently and %s sequentially", l.Op.Req, l.Out, wantKey)), info
			}
		}
		return nil, info
	case "g":
		build := func() *c13Group { return buildC13(&World{Ops: w.Setup}, len(w.Setup), "") }
		cg := build()
		logs, sw := runTasks(w, func(task int, op *Op) string {
			var first, second map[string]string
			o := Serve(cg.g, *op.Req, nil, func(rec *ReqRec, route types.Route) {
				first = snapshotParams(route.Params())
				simrt.Point(simrt.KUser)
				simrt.Point(simrt.KUser)
				second = snapshotParams(route.Params())
			})
			out := obsKey13(&o)
			if first != nil && fmtParams(first) != fmtParams(second) {
				out = fmt.Sprintf("viol:params-changed-under-handler:request %s saw %s on entry and %s after yielding", op.Req, fmtParams(first), fmtParams(second))
			}
			return out
		})
		info.Interleave, info.Events, info.Sched = sw.Hash(), sw.Steps(), sw.Recorded()
		info.Shape = hashU(info.Shape, sw.Hash())
		info.Hash = foldLogs(sw.Hash(), logs)
		info.Nontrivial = sw.Preempts > 0
		st.CN("preempt", sw.Preempts)
		if sw.WasAborted() {
			if sw.AbortReason == "deadlock" {
				return mk("deadlock", "deadlock", "concurrent requests on a quiescent group block each other"), info
			}
			st.Inconclusive["cap"]++
			return nil, info
		}
		for _, t := range sw.Tasks() {
			if t.Panic != nil {
				return mk("task-panic", "task-panic", fmt.Sprintf("task %s died: %v", t.Name, t.Panic)), info
			}
		}
		simrt.SetPoolCfg(simrt.PoolCfg{Fresh: 1, Drop: 100})
		seq := build()
		for _, l := range logs {
			if strings.HasPrefix(l.Out, "viol:") {
				parts := strings.SplitN(l.Out, ":", 3)
				return mk("own-params", parts[1], parts[2]), info
			}
			want := Serve(seq.g, *l.Op.Req, nil, nil)
			if obsKey13(&want) != l.Out {
				return mk("sequential-replica", "differs-from-sequential", fmt.Sprintf("%s hdr=%v answered %s concurrently and %s sequentially", l.Op.Req, l.Op.Req.Hdr, l.Out, obsKey13(&want))), info
			}
		}
		return nil, info
	default: // d
		// the caller prepares R*'s option list first (base + extra on the shared buffer) ...
		starOpts := append(optBase, mux.WithURLDomain("https://star.example"))
		// ... then unrelated instances are built and used, sequentially, then R* is built
		for t := range w.Tasks {
			in := newInstance(kinds[t], t)
			for i := range w.Tasks[t] {
				in.do(&w.Tasks[t][i])
			}
		}
		after := observeStar(w, starOpts)
		self, err := os.Executable()
		if err != nil {
			fatal(2, "%v", err)
		}
		wb, _ := json.Marshal(w)
		cmd := exec.Command(self, "-solo")
		cmd.Stdin = bytes.NewReader(wb)
		cmd.Env = append(os.Environ(), "VERIF_COLD=1")
		var outb, errb bytes.Buffer
		cmd.Stdout, cmd.Stderr = &outb, &errb
		if err := cmd.Run(); err != nil {
			if ee, ok := err.(*exec.ExitError); ok && ee.ExitCode() == 66 {
				os.Stderr.Write(errb.Bytes())
				os.Exit(66)
			}
			fatal(2, "solo child: %v: %s", err, errb.String())
		}
		var first []string
		if err := json.Unmarshal(outb.Bytes(), &first); err != nil {
			fatal(2, "solo child output: %v", err)
		}
		h := uint64(14695981039346656037)
		for _, l := range after {
			h = hashStr(h, l)
		}
		info.Hash, info.Events, info.Nontrivial = h, int64(len(after)), true
		sort.Strings(kinds)
		if d := diffLines(first, after); d != "" {
			d = strings.Replace(strings.Replace(d, "before:", "built first thing in a fresh process:", 1), "after:", "built after other instances were used:", 1)
			return mk("fresh-router", "depends-on-prior-activity", d), info
		}
		return nil, info
	}
}

func init() {
	register(&PropImpl{ID: "C07", Race: true, Gen: genC07, Exec: execC07, NoRecheck: true})
}
