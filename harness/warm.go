package main

import "os"

// warmup brings the process-wide lazily filled state of the module under test
// (the rendered method-set memo) into the same state in every worker process,
// so that the number of decision points an operation executes does not depend
// on which worlds ran before it in the process.  VERIF_COLD=1 skips it (C07
// runs cold, one world per process, because first-use is what it examines).
func warmup() {
	if os.Getenv("VERIF_COLD") == "1" {
		return
	}
	for _, trace := range []bool{false, true} {
		ms := append([]string{}, anyMethods...)
		if !trace {
			ms = append(ms, "TRACE")
		}
		for mask := 1; mask < 1<<len(ms); mask++ {
			var sel []string
			for i, m := range ms {
				if mask&(1<<i) != 0 {
					sel = append(sel, m)
				}
			}
			e := NewEnv()
			r := NewSimRouter(e, RouterOpts{Name: "warm", Trace: trace})
			func() {
				defer func() { recover() }()
				r.Handle("/p", e.Handler(1, nil), nil, sel...)
				Serve(r, Req{Method: "OPTIONS", Path: "/p"}, nil, nil)
				Serve(r, Req{Method: "OPTIONS", Path: "*"}, nil, nil)
				r.Remove("/p")
				Serve(r, Req{Method: "OPTIONS", Path: "*"}, nil, nil)
			}()
		}
	}
}
