package main

import (
	"fmt"
	"net/http"
	"regexp"
	"strings"

	mux "github.com/issue9/mux/v9"
	"github.com/issue9/mux/v9/simrt"
	"github.com/issue9/mux/v9/types"
)

// C05: nothing crashes the router.  Hostile clients and careless operators act
// in the middle of arbitrary histories (after Remove/Clean, between rejected
// registrations); the only oracle is the recover() monitor.

var garbagePieces = []string{"{", "}", ":", "-", "/", "*", "", "\\d+", "[", "(", ")", "id", "{id}", "{id:\\d+}", "{-x}", "{x:digit}", "a", "b", "\xff", "\x00", "{{", "}}", "{:}", "{}", "{-}", "%", "?", "#", " ", "/a/", ".html", "{a}{b}", "{a:[}", "é", "{a:(?P<a>x)}", "+", "|", "^", "$", "\\", "{id:a)|(b}", "{v:x)|(y}/z", ")|(", "{w:(}", "{q:a|b)}", "b", "y/z",
	"{-:\\d+}", "{-:}", "{-:digit}", "{-x:\\d+}", "{:\\d+}", "{-:a|b}", "{--x}", "{-:\\d+}/a", "{x:}", "{-x:}"}

func garbage(r *Rng) string {
	switch r.Intn(12) {
	case 0:
		return ""
	case 1:
		return strings.Repeat(pick(r, []string{"/a", "{", "x", "/{id}"}), pick(r, []int{100, 4000, 33000}))
	}
	n := r.Range(1, 6)
	var sb strings.Builder
	for i := 0; i < n; i++ {
		sb.WriteString(pick(r, garbagePieces))
	}
	return sb.String()
}

var hostileMethods = []string{"GET", "POST", "OPTIONS", "HEAD", "TRACE", "", "get", "BOGUS", "CONNECT", "PRI", "\xff", "G E T", strings.Repeat("M", 300), "DELETE", "PATCH"}
var hostilePaths = []string{"b", "/b", "y/z", "/y/z", "a", "*", "", "/", "//", "x", "/\xff\xfe", "/%zz", "/a/../b", "/\x00", "/{id}", "{", "}", "/users/{", "?", " ", "/s/", "/s", "/u/1/", "/.", "/./", "/../", "/a//b", "\\", "/users/5/7/log", "/posts/1.html", "/v1", "/v2", "/v2/", "v1", "/v11", "/v1/"}
var hostileHosts = []string{"[\u212a]:8080", "[\u212a\u212a.com]", "[\u2126\u2126]:1", "[\u0130.example.com]", "\u212a\u212a\u212a.com:80", "\u212ax:8", "\u2126\u2126.example.com:443", "\u1e9e\u1e9e\u1e9e\u1e9e:1", "\u212a.example.com", "", "example.com", "EXAMPLE.com:80", "example.com:", "example.com:x", "[::1]", "[::1]:80", "[", "]", "[]", ":", "::", "a.example.com:99999999999", "\xff.com", "*.example.com", "{sub}.example.com", "api.example.com", "A.b.C", ".", "..", "[::1", "::1]", "x:1:2", strings.Repeat("a.", 200)}

func hostileReq(r *Rng, pats []*Pattern) Req {
	q := Req{Method: pick(r, hostileMethods), Host: pick(r, hostileHosts)}
	switch r.Intn(5) {
	case 0, 1:
		q.Path = pick(r, hostilePaths)
	case 2:
		q.Path = garbage(r)
	case 3:
		q.Path = strings.Repeat("/"+pick(r, []string{"a", "{id}", "5", "\xff"}), pick(r, []int{50, 2000, 32000}))
	default:
		q.Path = GenPaths(r, pats, 1)[0]
	}
	if r.Pct(40) {
		q.Hdr = map[string]string{
			"Access-Control-Request-Method":  pick(r, []string{"", "GET", "POST", "get", "\xff", "BOGUS", "OPTIONS"}),
			"Access-Control-Request-Headers": pick(r, []string{"", "content-type", "Content-Type, X-Token", ",,,", " x-token ,", "*", "\x00", strings.Repeat("a,", 500)}),
			"Accept": pick(r, []string{"", "application/json; version=1", "application/json;version=", ";;;", "a/b; version=\"", "application/json; version=2; version=3", "\xff", "text/html, */*"}),
			"Origin": pick(r, []string{"", "https://a.com", "null", "\x00"})}
	}
	return q
}

func genC05(r *Rng, idx int, tier string) *World {
	w := &World{}
	w.Opts = RouterOpts{Name: "r", Interceptors: GenICs(r), Trace: r.Pct(30), Lock: r.Pct(30), Recovery: ""}
	if r.Pct(35) {
		w.Opts.Interceptors = nil // CheckSyntax agreement is only demanded without interceptors
	}
	w.Opts.CORS = pick(r, []string{"", "", "any", "list", "cred", "deny"})
	w.Pool = genPoolCfg(r)
	pool := GenPool(r, r.Range(3, 12), w.Opts.Interceptors)
	var pats []*Pattern
	for _, raw := range pool {
		p, _ := ParsePattern(raw, w.Opts.Interceptors)
		pats = append(pats, p)
	}
	n := r.Range(8, 40)
	hid := 100
	var live []string
	for i := 0; i < n; i++ {
		switch k := r.Intn(100); {
		case k < 20:
			hid++
			p := pick(r, pool)
			w.Ops = append(w.Ops, Op{K: "handle", Pattern: p, HID: hid, Methods: genMethods(r, w.Opts.Trace)})
			live = append(live, p)
		case k < 28:
			hid++
			ms := genMethods(r, w.Opts.Trace)
			if r.Pct(40) {
				ms = []string{pick(r, hostileMethods)}
			}
			w.Ops = append(w.Ops, Op{K: "gh", Pattern: garbage(r), HID: hid, Methods: ms})
		case k < 30 && r.Pct(25):
			// a very long parameter segment, then the same pattern with the parameter renamed
			long := strings.Repeat(pick(r, []string{"x", "ab", "/seg", "\u00e9", "\u65e5"}), pick(r, []int{16000, 17000, 11000, 33000, 40000, 66000})) // also: more bytes than runes
			for _, name := range []string{"id", "name"} {
				hid++
				w.Ops = append(w.Ops, Op{K: "gh", Pattern: "/lp/{" + name + "}" + long, HID: hid, Methods: []string{"GET"}})
			}
		case k < 36:
			op := Op{K: "remove", Pattern: garbage(r)}
			if len(live) > 0 && r.Pct(70) {
				op.Pattern = pick(r, live)
			}
			if r.Pct(50) {
				op.Methods = []string{pick(r, hostileMethods)}
			}
			w.Ops = append(w.Ops, op)
			// the removed route's own paths (and its neighbours') are what a client keeps sending
			if p, ok := ParsePattern(op.Pattern, w.Opts.Interceptors); ok {
				path, _ := p.Witness(r)
				w.Ops = append(w.Ops, Op{K: "req", Req: &Req{Method: "GET", Path: path}})
				if len(path) > 1 {
					w.Ops = append(w.Ops, Op{K: "req", Req: &Req{Method: pick(r, hostileMethods), Path: path[:len(path)-1] + pick(r, []string{"", "x", "/", "\xff"})}})
				}
			}
		case k < 39:
			w.Ops = append(w.Ops, Op{K: "clean"})
		case k < 43:
			op := Op{K: "pclean", Pattern: garbage(r)}
			if len(live) > 0 && r.Pct(60) {
				p := pick(r, live)
				op.Pattern = p[:r.Range(1, len(p))]
			}
			w.Ops = append(w.Ops, op)
		case k < 48:
			w.Ops = append(w.Ops, Op{K: "syntax", Pattern: garbage(r)})
		case k < 54:
			ps := map[string]string{}
			for j := r.Intn(3); j > 0; j-- {
				ps[pick(r, []string{"id", "x", "a", "", "-x"})] = garbage(r)
			}
			p := garbage(r)
			if len(live) > 0 && r.Pct(50) {
				p = pick(r, live)
			}
			w.Ops = append(w.Ops, Op{K: "url", Pattern: p, Params: ps, B: r.Pct(50)})
		case k < 62:
			q := hostileReq(r, pats)
			w.Ops = append(w.Ops, Op{K: "hmatch", Req: &q})
		case k < 68:
			q := hostileReq(r, pats)
			w.Ops = append(w.Ops, Op{K: "vmatch", Req: &q})
		case k < 80:
			q := hostileReq(r, pats)
			w.Ops = append(w.Ops, Op{K: "greq", Req: &q})
		default:
			q := hostileReq(r, pats)
			w.Ops = append(w.Ops, Op{K: "req", Req: &q})
		}
	}
	return w
}

var reDigits = regexp.MustCompile(`[0-9]+`)

func execC05(w *World, st *Stats) (*Violation, RunInfo) {
	simrt.SetPoolCfg(w.Pool)
	env := NewEnv()
	r := NewSimRouter(env, w.Opts)
	info := RunInfo{Shape: worldShape(w), Events: int64(len(w.Ops))}
	h := uint64(14695981039346656037)

	// a group with matcher-guarded routers, a Hosts matcher, version matchers
	g := mux.NewGroup[*Comp](env.Call, env.Group404(idG404), env.NotAllowedBuilder(id405), env.OptionsBuilder(idOptions))
	hosts := mux.NewHosts(w.Opts.Lock, "api.example.com", "{sub}.example.com", "a.b.c", "{n:\\d+}.num.example.com")
	pv := mux.NewPathVersion("ver", "v1", "v11", "/v2/")
	hv := mux.NewHeaderVersion("hver", "version", func(error) {}, "1", "2")
	rh := g.New("byhost", hosts)
	rp := g.New("bypath", mux.AndMatcher(pv, mux.OrMatcher(hv, mux.MatcherFunc(func(*http.Request, *types.Context) bool { return true }))))
	for i, gr := range []*mux.Router[*Comp]{rh, rp} {
		gr.Get("/x/{id}", env.Handler(50+i, nil))
		gr.Get("/", env.Handler(60+i, nil))
	}

	mk := func(i int, sig, detail string) *Violation {
		return &Violation{Prop: "C05", Oracle: "recover-monitor", Sig: sig, Detail: detail, Step: i}
	}
	sigOf := func(kind string, p string) string {
		return kind + ":" + reDigits.ReplaceAllString(strings.TrimPrefix(p, "runtime:"), "N")
	}
	mutated, probed := false, false
	for i := range w.Ops {
		op := &w.Ops[i]
		st.C("op_" + op.K)
		switch op.K {
		case "handle", "remove", "clean", "pclean":
			pan := applyAdmin(env, r, op)
			if c := classifyPanic(pan); strings.HasPrefix(c, "runtime") {
				info.Hash = h
				return mk(i, sigOf(op.K, c), fmt.Sprintf("%s panicked with a runtime fault: %s", op, c)), info
			}
			if pan == nil {
				mutated = true
			}
			st.C("garbage")
			h = hashStr(h, classifyPanic(pan))
		case "gh":
			st.C("operator_garbage")
			var serr error
			synPan := catch(func() { serr = mux.CheckSyntax(op.Pattern) })
			if synPan != nil {
				info.Hash = h
				return mk(i, sigOf("checksyntax", classifyPanic(synPan)), fmt.Sprintf("CheckSyntax(%q) panicked: %v", op.Pattern, synPan)), info
			}
			var routesBefore int
			catch(func() { routesBefore = len(r.Routes()) })
			o2 := *op
			o2.K = "handle"
			pan := applyAdmin(env, r, &o2)
			c := classifyPanic(pan)
			h = hashStr(h, c)
			if strings.HasPrefix(c, "runtime") {
				info.Hash = h
				return mk(i, sigOf("handle", c), fmt.Sprintf("Handle(%q, %q) panicked with a runtime fault instead of an error value: %s", op.Pattern, op.Methods, c)), info
			}
			if len(w.Opts.Interceptors) == 0 {
				st.C("c05_syntax_agreement")
				if serr != nil && pan == nil {
					info.Hash = h
					return mk(i, "syntax-disagree:accepted", fmt.Sprintf("CheckSyntax(%q) reports %v but Handle registered it", op.Pattern, serr)), info
				}
				valid := true
				seen := map[string]bool{}
				for _, m := range op.Methods {
					if !NewModel(w.Opts).ValidMethod(m) || seen[m] {
						valid = false
					}
					seen[m] = true
				}
				if serr == nil && pan != nil && valid && routesBefore <= 1 && !mutated {
					info.Hash = h
					return mk(i, "syntax-disagree:rejected", fmt.Sprintf("CheckSyntax(%q) accepts but Handle on an empty router rejected it: %s", op.Pattern, c)), info
				}
			}
			if pan == nil {
				mutated = true
			}
		case "syntax":
			if pan := catch(func() { mux.CheckSyntax(op.Pattern) }); pan != nil {
				info.Hash = h
				return mk(i, sigOf("checksyntax", classifyPanic(pan)), fmt.Sprintf("CheckSyntax(%q) panicked: %v", op.Pattern, pan)), info
			}
		case "url":
			if pan := catch(func() {
				mux.URL(op.Pattern, op.Params)
				r.URL(op.B, op.Pattern, op.Params)
				r.Prefix("/p").URL(op.B, op.Pattern, op.Params)
				r.Resource(op.Pattern).URL(op.B, op.Params)
			}); pan != nil {
				info.Hash = h
				return mk(i, sigOf("url", classifyPanic(pan)), fmt.Sprintf("URL(strict=%v, %q, %v) panicked: %v", op.B, op.Pattern, op.Params, pan)), info
			}
		case "hmatch", "vmatch":
			st.C("hostile_request")
			rec := &ReqRec{}
			req := buildRequest(*op.Req, rec)
			var ok bool
			pan := catch(func() {
				ctx := types.NewContext()
				defer ctx.Destroy()
				if op.K == "hmatch" {
					ok = hosts.Match(req, ctx)
				} else {
					ok = pv.Match(req, ctx)
					ok = hv.Match(req, ctx) || ok
				}
			})
			if pan != nil {
				info.Hash = h
				return mk(i, sigOf(op.K, classifyPanic(pan)), fmt.Sprintf("%s on %s panicked: %v", op.K, op.Req, pan)), info
			}
			h = hashStr(h, fmt.Sprint(ok))
		case "req", "greq":
			st.C("hostile_request")
			var target http.Handler = r
			if op.K == "greq" {
				target = g
			}
			o := Serve(target, *op.Req, nil, nil)
			h = hashStr(h, o.Key())
			if mutated {
				probed = true
			}
			if o.Panic != "" {
				info.Hash = h
				return mk(i, sigOf(op.K, o.Panic), fmt.Sprintf("%s %s panicked although no user component did: %s", op.K, op.Req, o.Panic)), info
			}
			if o.Zero {
				info.Hash = h
				return mk(i, op.K+":zero-handler", fmt.Sprintf("%s %s reached CallFunc with the zero handler (a real handler type is called through a nil value and crashes)", op.K, op.Req)), info
			}
		}
	}
	info.Hash = h
	info.Nontrivial = mutated && probed
	return nil, info
}

func catch(f func()) (p any) {
	defer func() { p = recover() }()
	f()
	return nil
}

func init() {
	register(&PropImpl{ID: "C05", Gen: genC05, Exec: execC05})
}
