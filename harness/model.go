package main

import (
	"sort"
	"strings"
)

// Table model: what a router's route table must be after a history of
// operations, derived from the documentation only.

var anyMethods = []string{"GET", "POST", "DELETE", "PUT", "PATCH", "CONNECT"}
var allMethods = []string{"GET", "POST", "DELETE", "PUT", "PATCH", "CONNECT", "TRACE", "HEAD", "OPTIONS"}

type MHandler struct {
	HID int
	MS  []string // middleware tags given at registration (route ++ prefix), inner → outer
	Use int      // number of Use tags that had been added when registered (informational)
}

type MRoute struct {
	Pattern string
	P       *Pattern
	Methods map[string]*MHandler
	FirstMS []string // tags of the call that first registered the pattern (OPTIONS/405 carry them)
}

type Model struct {
	Routes map[string]*MRoute
	Order  []string // insertion order of live patterns
	Use    []string // Router.Use / Group.Use tags in the order added
	Trace  bool
	ICs    []string
}

func NewModel(o RouterOpts) *Model {
	return &Model{Routes: map[string]*MRoute{}, Trace: o.Trace, ICs: o.Interceptors}
}

func (m *Model) Clone() *Model {
	c := &Model{Routes: map[string]*MRoute{}, Order: append([]string{}, m.Order...), Use: append([]string{}, m.Use...), Trace: m.Trace, ICs: m.ICs}
	for k, r := range m.Routes {
		nr := &MRoute{Pattern: r.Pattern, P: r.P, Methods: map[string]*MHandler{}, FirstMS: r.FirstMS}
		for mk, h := range r.Methods {
			nr.Methods[mk] = h
		}
		c.Routes[k] = nr
	}
	return c
}

// ValidMethod: may be registered by hand.
func (m *Model) ValidMethod(meth string) bool {
	switch meth {
	case "GET", "POST", "DELETE", "PUT", "PATCH", "CONNECT":
		return true
	case "TRACE":
		return !m.Trace
	}
	return false
}

// HandleVerdict says what the documentation demands of a Handle call:
// +1 must be accepted, -1 must be rejected, 0 unspecified.
func (m *Model) HandleVerdict(pattern string, methods []string) (verdict int, why string) {
	p, ok := ParsePattern(pattern, m.ICs)
	if !ok {
		if PatternStatus(pattern, m.ICs) < 0 {
			return -1, "malformed pattern"
		}
		return 0, "pattern syntax not settled by the documentation"
	}
	if len(methods) == 0 {
		methods = anyMethods
	}
	seen := map[string]bool{}
	for _, x := range methods {
		if !m.ValidMethod(x) {
			return -1, "unsupported or reserved method " + x
		}
		if seen[x] {
			return -1, "method listed twice " + x
		}
		seen[x] = true
	}
	if r := m.Routes[pattern]; r != nil {
		for _, x := range methods {
			if r.Methods[x] != nil {
				return -1, "duplicate pattern+method"
			}
		}
		return +1, ""
	}
	nf := p.NormalForm()
	amb := 0
	for _, r := range m.Routes {
		if r.P.NormalForm() == nf {
			amb++
		}
	}
	if amb == 0 {
		return +1, ""
	}
	if len(m.Routes) == 1 {
		return -1, "identical up to parameter names to the only other route"
	}
	return 0, "identical up to parameter names to a live route"
}

// Handle applies an accepted registration.
func (m *Model) Handle(pattern string, hid int, ms []string, methods []string) {
	if len(methods) == 0 {
		methods = anyMethods
	}
	r := m.Routes[pattern]
	if r == nil {
		p, _ := ParsePattern(pattern, m.ICs)
		r = &MRoute{Pattern: pattern, P: p, Methods: map[string]*MHandler{}, FirstMS: append([]string{}, ms...)}
		m.Routes[pattern] = r
		m.Order = append(m.Order, pattern)
	}
	for _, x := range methods {
		r.Methods[x] = &MHandler{HID: hid, MS: append([]string{}, ms...), Use: len(m.Use)}
	}
}

func (m *Model) drop(pattern string) {
	delete(m.Routes, pattern)
	for i, p := range m.Order {
		if p == pattern {
			m.Order = append(m.Order[:i], m.Order[i+1:]...)
			break
		}
	}
}

// Remove applies Remove(pattern, methods...). Unknown / reserved method names
// are ignored ("指定错误的 methods 值，将自动忽略该值"); removing OPTIONS does nothing;
// HEAD lives exactly as long as GET (so removing HEAD by hand does nothing).
func (m *Model) Remove(pattern string, methods []string) {
	r := m.Routes[pattern]
	if r == nil {
		return
	}
	if len(methods) == 0 {
		m.drop(pattern)
		return
	}
	for _, x := range methods {
		switch x {
		case "OPTIONS", "HEAD", "":
		default:
			delete(r.Methods, x)
		}
	}
	if len(r.Methods) == 0 {
		m.drop(pattern)
	}
}

func (m *Model) Clean() {
	m.Routes = map[string]*MRoute{}
	m.Order = nil
}

func (m *Model) CleanPrefix(prefix string) {
	for _, p := range append([]string{}, m.Order...) {
		if strings.HasPrefix(p, prefix) {
			m.drop(p)
		}
	}
}

// MethodSet is the documented method set of a live pattern.
func (m *Model) MethodSet(pattern string) map[string]bool {
	r := m.Routes[pattern]
	if r == nil {
		return nil
	}
	s := map[string]bool{"OPTIONS": true}
	for x := range r.Methods {
		s[x] = true
	}
	if s["GET"] {
		s["HEAD"] = true
	}
	if m.Trace {
		s["TRACE"] = true
	}
	return s
}

// StarBounds returns the lower and upper bound of the OPTIONS * Allow set.
func (m *Model) StarBounds() (lo, hi map[string]bool) {
	lo = map[string]bool{"OPTIONS": true}
	if m.Trace {
		lo["TRACE"] = true
	}
	for _, r := range m.Routes {
		for x := range r.Methods {
			lo[x] = true
		}
	}
	hi = map[string]bool{"HEAD": true}
	for k := range lo {
		hi[k] = true
	}
	return lo, hi
}

func (m *Model) LivePatterns() []*Pattern {
	ps := make([]*Pattern, 0, len(m.Order))
	for _, k := range m.Order {
		ps = append(ps, m.Routes[k].P)
	}
	return ps
}

func (m *Model) SortedPatterns() []string {
	ks := append([]string{}, m.Order...)
	sort.Strings(ks)
	return ks
}

// ExpectRoutes is what Routes() must return, as pattern -> sorted method set.
func (m *Model) ExpectRoutes() map[string][]string {
	res := map[string][]string{}
	star := map[string]bool{"OPTIONS": true}
	if m.Trace {
		star["TRACE"] = true
	}
	res["*"] = sortedKeys(star)
	for k := range m.Routes {
		res[k] = sortedKeys(m.MethodSet(k))
	}
	return res
}

func canonRoutes(r map[string][]string) map[string][]string {
	res := map[string][]string{}
	for k, v := range r {
		vv := append([]string{}, v...)
		sort.Strings(vv)
		res[k] = vv
	}
	return res
}

func routesDiff(got, want map[string][]string) string {
	var ks []string
	for k := range got {
		ks = append(ks, k)
	}
	for k := range want {
		if _, ok := got[k]; !ok {
			ks = append(ks, k)
		}
	}
	sort.Strings(ks)
	for _, k := range ks {
		g, gok := got[k]
		w, wok := want[k]
		switch {
		case !gok:
			return "Routes() lacks " + k + " " + strings.Join(w, ",")
		case !wok:
			return "Routes() lists dead pattern " + k + " " + strings.Join(g, ",")
		case strings.Join(g, ",") != strings.Join(w, ","):
			return "Routes()[" + k + "]=" + strings.Join(g, ",") + " want " + strings.Join(w, ",")
		}
	}
	return ""
}
