package main

import (
	"fmt"
	"strings"
)

// Pattern pool grammar.  Literal text uses only letters from litLetters and the
// separators / . - _ ; digits and the letters q w x y z k j v are reserved for
// "simple" parameter values (pattern.go), so that a simple value never shares a
// byte with literal text of any generated pattern.

var (
	roots     = []string{"/users/", "/posts/", "/u/", "/pages/", "/api/", "/s/", "/", "/a/b/", "/users/me/", "/posts/author/"}
	bareRoots = []string{"abc/", "s-", "top.", "h"}
	litLeaf   = []string{"a", "b", "c", "d", "e", "f", "g", "ab", "abc", "ac", "author", "new", "me", "log", "posts", "emails", "profile", "h.html", "m-n", "caf\u00e9", "\u65e5\u672c"}
	tok1      = []string{`{v:min5}`, `{k:qx|zw}`, `{-k:qx|zw}`, `{id}`, `{idx}`, `{name}`, `{-ign}`, `{id:\d+}`, `{uid:\d+}`, `{w:[a-z]+}`, `{id:digit}`, `{w:word}`, `{x:any}`, `{-n:\d+}`, `{-g:digit}`, `{n:[a-z]+}`}
	tok2      = []string{`{-alt:qx|zw}`, `{action}`, `{page:\d+}`, `{page:digit}`, `{path}`, `{-skip}`, `{sub:[a-z]+}`, `{act:word}`, `{pg:\d*}`, `{actn}`}
	tails     = []string{"", "", "/", "/log", "/posts", ".html", "-x", "/a", "/ab", "/ac", "/author", "/emails", "_m", "/log/", ".htm", ":m"}
	seps      = []string{"/", "-", ".", "_", "/p/", "/log/"}
	allICs    = []string{"digit", "word", "any", "min5"}
)

// GenPool draws n distinct patterns that share prefixes and compete.
// usable drops the tokens whose rule names an interceptor the router does not
// have (they would be regexps matching the literal rule name only).
func usable(toks []string, ics []string) []string {
	var res []string
	for _, t := range toks {
		ok := true
		for _, ic := range allICs {
			if strings.Contains(t, ":"+ic+"}") && !contains(ics, ic) {
				ok = false
			}
		}
		if ok {
			res = append(res, t)
		}
	}
	return res
}

// poolExtras adds token/tail pairs whose values are not "simple" (they contain literal bytes): only
// the checks that do not rely on simple witnesses (C01, C02) switch it on.
var poolExtras bool

func GenPool(r *Rng, n int, ics []string) []string {
	tok1, tok2 := usable(tok1, ics), usable(tok2, ics)
	tails := tails
	if poolExtras {
		// same name, rule + following literal concatenate to the same text at different split points
		tok1 = append(append([]string{}, tok1...), `{f:\d+a}`, `{f:\d+}`, `{f:\d+}`)
		tails = append(append([]string{}, tails...), "a", "a")
	}
	nr := r.Range(1, 3)
	var rs []string
	for i := 0; i < nr; i++ {
		if r.Pct(12) {
			rs = append(rs, pick(r, bareRoots))
		} else {
			rs = append(rs, pick(r, roots))
		}
	}
	// a root used for a block of >=5 literal siblings in some worlds
	bigLit := r.Pct(45)
	seen := map[string]bool{}   // raw
	seenNF := map[string]bool{} // normal forms (no ambiguous pairs in a pool)
	var pool []string
	add := func(raw string) {
		if seen[raw] || len(pool) >= n {
			return
		}
		p, ok := ParsePattern(raw, ics)
		if !ok {
			return
		}
		nf := p.NormalForm()
		if seenNF[nf] {
			return
		}
		seen[raw], seenNF[nf] = true, true
		pool = append(pool, raw)
	}
	if bigLit {
		root := rs[0]
		leaves := append([]string{}, litLeaf...)
		shuffle(r, leaves)
		k := r.Range(5, 7)
		first := map[byte]bool{}
		for _, l := range leaves {
			if k == 0 {
				break
			}
			if first[l[0]] && r.Pct(70) {
				continue // mostly distinct first bytes: they become sibling nodes
			}
			first[l[0]] = true
			add(root + l)
			k--
		}
		add(root + pick(r, tok1) + pick(r, tails))
	}
	if r.Pct(10) {
		// a route that ends in a parameter, and one longer route below it
		t := pick(r, tok1)
		add(rs[0] + "e/" + t)
		add(rs[0] + "e/" + t + pick(r, []string{"/posts", "/", "/x/y"}))
	}
	if r.Pct(8) {
		// a grid: five or more literal siblings that all have children, no parameter sibling, and a late
		// pattern that splits one of them
		g := rs[0] + "g/"
		for _, a := range []string{"a", "b", "c", "d", "e", "f"}[:r.Range(5, 6)] {
			for _, b := range []string{"1", "2"}[:r.Range(1, 2)] {
				add(g + a + "/" + b)
			}
		}
		add(g + pick(r, []string{"bx", "cy", "a1", "d/"}))
	}
	if r.Pct(5) {
		// five or more children directly below the root: patterns without a leading slash and with distinct
		// first bytes (what a router mounted behind http.StripPrefix sees)
		for _, a := range []string{"a", "b", "c", "d", "e", "f", "g"}[:r.Range(5, 7)] {
			add(a + pick(r, []string{"1", "/b", "-m", "/" + pick(r, tok1), "", ".html"}))
		}
		n += 7
	}
	// rare shapes: a pattern with more parameters than a pooled context may keep (30), a very long
	// literal segment, a deep chain of parameters
	if r.Pct(6) {
		var sb strings.Builder
		sb.WriteString(rs[0] + "m")
		for i := 0; i < 33; i++ {
			fmt.Fprintf(&sb, "/{a%d}", i)
		}
		add(sb.String())
	}
	if r.Pct(5) {
		add(rs[0] + strings.Repeat("longsegment", pick(r, []int{30, 300})) + "/" + pick(r, tok1))
	}
	if r.Pct(8) {
		add(rs[0] + "deep/{id}/a/{name}/b/{uid:\\d+}/c/{action}/d")
	}
	for tries := 0; len(pool) < n && tries < 200; tries++ {
		root := pick(r, rs)
		switch r.Intn(10) {
		case 0, 1:
			add(root + pick(r, litLeaf))
		case 2:
			add(root + pick(r, litLeaf) + "/" + pick(r, litLeaf))
		case 3, 4, 5:
			add(root + pick(r, tok1) + pick(r, tails))
		case 6, 7:
			add(root + pick(r, tok1) + pick(r, seps) + pick(r, tok2) + pick(r, tails))
		case 8:
			add(root + pick(r, litLeaf) + "/" + pick(r, tok2) + pick(r, tails))
		case 9:
			add(strings.TrimSuffix(root, "/") + "-" + pick(r, tok1) + pick(r, tails))
		}
	}
	// near misses: a pooled pattern with every parameter renamed and exactly one other difference (a
	// literal byte, one byte more or less of literal text, another rule): not identical up to names, so
	// both must be accepted, and they compete for the same paths
	if r.Pct(22) {
		base := append([]string{}, pool...)
		for k := r.Range(1, 2); k > 0 && len(base) > 0; k-- {
			if nm := nearMiss(r, pick(r, base), ics); nm != "" {
				n++
				add(nm)
			}
		}
		if r.Pct(50) {
			shuffle(r, pool) // the near miss is not always registered after its model
		}
	}
	return pool
}

// nearMiss: see GenPool.  "" when the pattern has no parameter or the draw produced nothing usable.
func nearMiss(r *Rng, raw string, ics []string) string {
	p, ok := ParsePattern(raw, ics)
	if !ok {
		return ""
	}
	toks := append([]Token{}, p.Tokens...)
	var params, lits []int
	for i, t := range toks {
		if t.Kind == PLit {
			lits = append(lits, i)
		} else {
			params = append(params, i)
		}
	}
	if len(params) == 0 {
		return ""
	}
	swapByte := func(b byte) byte {
		alt := "abcdefg"
		if strings.IndexByte("/-._", b) >= 0 {
			alt = "/-._"
		}
		for {
			if c := alt[r.Intn(len(alt))]; c != b {
				return c
			}
		}
	}
	last := len(toks) - 1
	switch r.Intn(5) {
	case 0: // another byte right after a parameter
		i := pick(r, params)
		if i == last {
			toks = append(toks, Token{Kind: PLit, Text: pick(r, []string{"/", "-m", "/a", ".html"})})
		} else {
			t := []byte(toks[i+1].Text)
			t[0] = swapByte(t[0])
			toks[i+1].Text = string(t)
		}
	case 1: // another byte somewhere in a literal
		i := pick(r, lits)
		t := []byte(toks[i].Text)
		j := r.Intn(len(t))
		if t[j] >= 0x80 || (i == 0 && j == 0) {
			return ""
		}
		t[j] = swapByte(t[j])
		toks[i].Text = string(t)
	case 2: // one byte more at the end
		if toks[last].Kind == PLit {
			toks[last].Text += pick(r, []string{"a", "b", "/", "c"})
		} else {
			toks = append(toks, Token{Kind: PLit, Text: pick(r, []string{"/", "/a", "-m"})})
		}
	case 3: // one byte less at the end
		if toks[last].Kind != PLit || len(toks[last].Text) < 2 || toks[last].Text[len(toks[last].Text)-1] >= 0x80 {
			return ""
		}
		toks[last].Text = toks[last].Text[:len(toks[last].Text)-1]
	case 4: // another rule
		i := pick(r, params)
		rules := []string{"", `\d+`, `[a-z]+`, `[0-9]+`, `\d*`}
		for _, ic := range ics {
			if ic != "any" {
				rules = append(rules, ic)
			}
		}
		nr := pick(r, rules)
		if nr == toks[i].Rule {
			return ""
		}
		toks[i].Rule = nr
	}
	var sb strings.Builder
	for _, t := range toks {
		if t.Kind == PLit {
			sb.WriteString(t.Text)
			continue
		}
		name := t.Name + "n"
		if t.Ignore != r.Pct(15) {
			name = "-" + name
		}
		if t.Rule != "" {
			sb.WriteString("{" + name + ":" + t.Rule + "}")
		} else {
			sb.WriteString("{" + name + "}")
		}
	}
	return sb.String()
}

// GenICs draws an interceptor set.
func GenICs(r *Rng) []string {
	var ics []string
	for _, ic := range allICs {
		if r.Pct(60) {
			ics = append(ics, ic)
		}
	}
	if r.Pct(5) {
		ics = append(ics, "") // an interceptor registered under the empty name: {id} and {id:} stay named parameters
	}
	return ics
}

var richPieces = []string{"18446744073709551616", "1234567890123456789012345", "aaaaa", "1", "7", "12", "x", "abc", "a", "/", ".", "-", "_", "log", ".html", "a/b", "5x", "x5", "", "0", "Z", "é", "\xff", " ", "%2F", "author", "me"}

// RichValue draws a value that may contain literal bytes.
func RichValue(r *Rng) string {
	n := r.Range(1, 3)
	var sb strings.Builder
	for i := 0; i < n; i++ {
		sb.WriteString(pick(r, richPieces))
	}
	return sb.String()
}

// GenPaths derives request paths from a pattern pool: witnesses, rich
// witnesses, near misses, cross-overs that force backtracking.
func GenPaths(r *Rng, pats []*Pattern, n int) []string {
	var paths []string
	if len(pats) == 0 {
		return []string{"/", "/x", ""}
	}
	for i := 0; i < n; i++ {
		p := pick(r, pats)
		switch r.Intn(12) {
		case 0, 1, 2:
			w, _ := p.Witness(r)
			paths = append(paths, w)
		case 3, 4:
			vals := map[string]string{}
			for _, t := range p.Tokens {
				if t.Kind != PLit {
					if r.Pct(50) {
						vals[t.Name] = RichValue(r)
					} else {
						tt := t
						vals[t.Name] = SimpleValue(&tt, r)
					}
				}
			}
			paths = append(paths, p.Fill(vals))
		case 5:
			w, _ := p.Witness(r)
			if len(w) > 0 {
				i := r.Intn(len(w))
				b := []byte(w)
				b[i] = "abx1/.-"[r.Intn(7)]
				w = string(b)
			}
			paths = append(paths, w)
		case 6:
			w, _ := p.Witness(r)
			paths = append(paths, w+pick(r, []string{"/", "x", "/log", ".html", "/1", "-m"}))
		case 7:
			w, _ := p.Witness(r)
			if len(w) > 1 {
				w = w[:r.Range(1, len(w)-1)]
			}
			paths = append(paths, w)
		case 8, 9:
			// cross-over: head of one witness, tail of another
			q := pick(r, pats)
			a, _ := p.Witness(r)
			b, _ := q.Witness(r)
			ia := r.Intn(len(a) + 1)
			ib := r.Intn(len(b) + 1)
			paths = append(paths, a[:ia]+b[ib:])
		case 10:
			// values that satisfy a sibling's first parameter but not its tail
			vals := map[string]string{}
			for _, t := range p.Tokens {
				if t.Kind != PLit {
					vals[t.Name] = pick(r, []string{"5", "7", "55", "x", "ab", "5/7", "5/x"})
				}
			}
			paths = append(paths, p.Fill(vals))
		case 11:
			paths = append(paths, pick(r, []string{"", "*", "/", "//", "x", "/users", "/posts/", "\x00", strings.Repeat("/a", 40)}))
		}
	}
	return paths
}

// FixedWitness is the deterministic simple witness of a pattern (function of
// the pattern text only), used where probes must stay comparable over time.
func FixedWitness(p *Pattern) (string, map[string]string) {
	return p.Witness(NewRng(hashStr(1469598103934665603, p.Raw)))
}
