package main

import (
	"mime"
	"fmt"
	"net/http"
	"strings"

	mux "github.com/issue9/mux/v9"
	"github.com/issue9/mux/v9/simrt"
	"github.com/issue9/mux/v9/types"
)

// ---- C14: Hosts matcher ---------------------------------------------------------------------------

var hostLits = []string{"\u00e9cole.example.com", "\u043f\u0440\u0438\u043c\u0435\u0440.example.com", "api.example.com", "www.example.com", "a.example.com", "b.example.com", "c.example.com", "d.example.com", "e.example.com", "example.com", "x.org", "api.x.org",
	"::1", "2001:db8::2", "2001:db8::3", "fe80::a"} // IPv6 literals as domains: their last group looks like a port
var hostPats = []string{"{n:\\d+}.a.example.com", "{n:\\d+}.b.example.com", "{s:[a-z]+}.a.x.org", "{s:[a-z]+}.b.x.org", "{sub}.example.com", "{sub:[a-z]+}.example.com", "{n:\\d+}.example.com", "{sub:word}.example.com", "{a}.{b}.example.com", "{-ign}.x.org", "s.{zone}.example.com", "{w:digit}.x.org", "{any}",
	// a parameter node that later registrations split inside its literal tail, with parameter siblings at the split point
	"{sub}.example.{tld:[a-z]+}", "{sub}.example.{n:\\d+}", "{sub}.example.org", "{sub}.example.net", "{sub}.example.io", "{sub}.example.dev", "{sub}.example.{tld}"}

func randCase(r *Rng, s string) string {
	b := []byte(s)
	in := false
	for i, c := range b {
		if c == '{' {
			in = true
		} else if c == '}' {
			in = false
		}
		if !in && c >= 'a' && c <= 'z' && r.Pct(35) {
			b[i] = c - 32
		}
	}
	return string(b)
}

// upperNonASCII upper-cases the non-ASCII letters of s and lower-cases the ASCII ones.
func upperNonASCII(s string) string {
	var sb strings.Builder
	for _, c := range strings.ToLower(s) {
		if c > 127 {
			sb.WriteString(strings.ToUpper(string(c)))
		} else {
			sb.WriteRune(c)
		}
	}
	return sb.String()
}

func normHost(h string) string {
	if i := strings.LastIndexByte(h, ':'); i >= 0 {
		digits := true
		for _, c := range h[i+1:] {
			if c < '0' || c > '9' {
				digits = false
			}
		}
		if digits {
			h = h[:i]
		}
	}
	if strings.HasPrefix(h, "[") && strings.HasSuffix(h, "]") {
		h = h[1 : len(h)-1]
	}
	return strings.ToLower(h)
}

// ---- C14, concurrent: a locked Hosts mutated and matched at the same time -------------------------
//
// NewHosts(true) is the matcher's own WithLock: Add, Delete and Match may then run concurrently.  Every
// domain has exactly one writer task, so each domain is a single-writer register: a Match on one of
// its hosts must report a state the domain had at some instant of the call, and once all tasks are
// done the matcher must agree with the last write to each domain.
var c14ConcDomains = []string{"a.example.com", "b.example.com", "api.x.org", "c.example.com", "{sub}.c.com", "{n:\\d+}.g.com", "d.example.com", "{w}.h.org",
	"a.example.com.cn", "d.example.com.cn"} // continue another domain's node: Delete of the shorter one prunes next to the longer one

func c14ConcHost(r *Rng, d string) (string, map[string]string) {
	p, _ := ParsePattern(d, nil)
	h, ps := p.Witness(r)
	if r.Pct(30) {
		h = randCase(r, h)
	}
	if r.Pct(20) {
		h += ":8080"
	}
	if ps == nil {
		ps = map[string]string{}
	}
	return h, ps
}

func genC14Conc(r *Rng) *World {
	w := &World{Variant: "conc"}
	w.Pool = genPoolCfg(r)
	w.Sim = genSim(r)
	w.Opts.Lock = true
	doms := append([]string{}, c14ConcDomains...)
	shuffle(r, doms)
	doms = doms[:r.Range(2, 6)]
	live := map[string]bool{}
	for _, d := range doms {
		if r.Pct(60) {
			w.Setup = append(w.Setup, Op{K: "add", Pattern: d})
			live[d] = true
		}
	}
	nW := r.Range(1, 2)
	owned := make([][]string, nW)
	for i, d := range doms {
		owned[i%nW] = append(owned[i%nW], d)
	}
	for t := 0; t < nW; t++ {
		var ops []Op
		for i := r.Range(1, 5); i > 0 && len(owned[t]) > 0; i-- {
			d := pick(r, owned[t])
			if live[d] {
				ops = append(ops, Op{T: t, K: "delete", Pattern: randCase(r, d), Name: d})
			} else {
				ops = append(ops, Op{T: t, K: "add", Pattern: randCase(r, d), Name: d})
			}
			live[d] = !live[d]
		}
		w.Tasks = append(w.Tasks, ops)
	}
	for t := r.Range(1, 3); t > 0; t-- {
		var ops []Op
		for i := r.Range(1, 5); i > 0; i-- {
			d := pick(r, doms)
			h, ps := c14ConcHost(r, d)
			ops = append(ops, Op{T: len(w.Tasks), K: "match", Name: d, Req: &Req{Method: "GET", Path: "/", Host: h}, Params: ps})
		}
		w.Tasks = append(w.Tasks, ops)
	}
	return w
}

func execC14Conc(w *World, st *Stats) (*Violation, RunInfo) {
	simrt.SetPoolCfg(w.Pool)
	info := RunInfo{Shape: worldShape(w)}
	mk := func(oracle, sig, detail string) *Violation {
		return &Violation{Prop: "C14", Oracle: oracle, Sig: sig, Detail: detail}
	}
	hs := mux.NewHosts(true)
	state := map[string]bool{} // after setup
	for i := range w.Setup {
		hs.Add(w.Setup[i].Pattern)
		state[w.Setup[i].Pattern] = true
	}
	logs, sw := runTasks(w, func(task int, op *Op) string {
		switch op.K {
		case "add":
			if pan := catch(func() { hs.Add(op.Pattern) }); pan != nil {
				return "panic(" + classifyPanic(pan) + ")"
			}
			return "ok"
		case "delete":
			if pan := catch(func() { hs.Delete(op.Pattern) }); pan != nil {
				return "panic(" + classifyPanic(pan) + ")"
			}
			return "ok"
		default:
			ok, ps, pan := hostMatch(hs, op.Req.Host)
			if pan != nil {
				return "panic(" + classifyPanic(pan) + ")"
			}
			return fmt.Sprint(ok, " ", fmtParams(ps))
		}
	})
	info.Interleave, info.Events, info.Sched = sw.Hash(), sw.Steps(), sw.Recorded()
	info.Shape = hashU(info.Shape, sw.Hash())
	info.Hash = foldLogs(sw.Hash(), logs)
	info.Nontrivial = sw.Preempts > 0
	st.CN("preempt", sw.Preempts)
	st.C("c14_conc_worlds")
	if sw.WasAborted() {
		if sw.AbortReason == "deadlock" {
			return mk("deadlock", "deadlock", "Add/Delete/Match on a locked Hosts block each other for ever"+describeHistory(logs)), info
		}
		st.Inconclusive["cap"]++
		return nil, info
	}
	for _, t := range sw.Tasks() {
		if t.Panic != nil {
			return mk("no-panic", "task-panic", fmt.Sprintf("task %s died: %v", t.Name, t.Panic)+describeHistory(logs)), info
		}
	}
	// per domain: the writer's history
	type wr struct {
		inv, ret int64
		live     bool
	}
	writes := map[string][]wr{}
	for _, l := range logs {
		if strings.HasPrefix(l.Out, "panic(") {
			return mk("no-panic", "op-panic", fmt.Sprintf("%s -> %s", l.Op, l.Out)+describeHistory(logs)), info
		}
		if l.Op.K == "add" || l.Op.K == "delete" {
			writes[l.Op.Name] = append(writes[l.Op.Name], wr{l.Inv, l.Ret, l.Op.K == "add"})
		}
	}
	want := func(live bool, ps map[string]string) string {
		if !live {
			return "false " + fmtParams(nil)
		}
		return "true " + fmtParams(ps)
	}
	for _, l := range logs {
		if l.Op.K != "match" {
			continue
		}
		st.C("c14_conc_match_checked")
		d := l.Op.Name
		cur := state[d]
		admissible := map[string]bool{}
		for _, x := range writes[d] { // in program order of the single writer
			if x.ret < l.Inv {
				cur = x.live
			}
		}
		admissible[want(cur, l.Op.Params)] = true
		for _, x := range writes[d] {
			if x.ret >= l.Inv && x.inv <= l.Ret { // overlaps the match
				admissible[want(x.live, l.Op.Params)] = true
			}
		}
		if !admissible[l.Out] {
			var adm []string
			for k := range admissible {
				adm = append(adm, k)
			}
			sortStrings(adm)
			return mk("register", "stale-or-foreign-answer", fmt.Sprintf("Match(%q) for domain %s answered %q; the domain's states during the call allow %q", l.Op.Req.Host, d, l.Out, adm)+describeHistory(logs)), info
		}
	}
	// quiescent: the last write to each domain decides
	final := map[string]bool{}
	for d, v := range state {
		final[d] = v
	}
	for d, ws := range writes {
		final[d] = ws[len(ws)-1].live
	}
	rr := NewRng(uint64(info.Interleave) | 1)
	for _, d := range c14ConcDomains {
		host, wps := c14ConcHost(rr, d)
		ok, ps, pan := hostMatch(hs, host)
		got := fmt.Sprint(ok, " ", fmtParams(ps))
		if pan != nil {
			return mk("no-panic", "match-panic", fmt.Sprintf("Match(%q) panicked afterwards: %s", host, classifyPanic(pan))), info
		}
		if w := want(final[d], wps); got != w {
			return mk("quiescent", "final-state", fmt.Sprintf("after all tasks finished domain %s is live=%v, but Match(%q) answers %q, want %q", d, final[d], host, got, w)+describeHistory(logs)), info
		}
	}
	return nil, info
}

func genC14(r *Rng, idx int, tier string) *World {
	if r.Pct(12) {
		return genC14Conc(r)
	}
	w := &World{}
	w.Pool = genPoolCfg(r)
	w.Opts.Lock = r.Pct(30)
	var ics []string
	type dom struct {
		raw string
		p   *Pattern
	}
	live := map[string]*Pattern{}
	var liveKeys []string
	deleted := false
	n := r.Range(6, 30)
	bigLit := r.Pct(50)
	if bigLit { // >= 6 literal domains plus wildcard domains from the start
		lits := append([]string{}, hostLits...)
		shuffle(r, lits)
		for _, d := range lits[:r.Range(6, 8)] {
			w.Ops = append(w.Ops, Op{K: "add", Pattern: randCase(r, d)})
			p, _ := ParsePattern(d, ics)
			live[d] = p
		}
	}
	rebuild := func() {
		liveKeys = liveKeys[:0]
		for k := range live {
			liveKeys = append(liveKeys, k)
		}
		sortStrings(liveKeys)
	}
	rebuild()
	for i := 0; i < n; i++ {
		switch k := r.Intn(100); {
		case k < 22:
			d := pick(r, hostLits)
			if r.Pct(55) {
				d = pick(r, usable(hostPats, ics))
			}
			p, ok := ParsePattern(d, ics)
			if !ok {
				continue
			}
			dupe := false
			for _, q := range live {
				if q.NormalForm() == p.NormalForm() {
					dupe = true
				}
			}
			if dupe {
				continue
			}
			w.Ops = append(w.Ops, Op{K: "add", Pattern: randCase(r, d)})
			live[d] = p
			rebuild()
		case k < 34:
			op := Op{K: "delete"}
			if len(liveKeys) > 0 && r.Pct(80) {
				d := pick(r, liveKeys)
				op.Pattern = randCase(r, d)
				delete(live, d)
				rebuild()
			} else {
				op.Pattern = pick(r, []string{"nope.example.com", "", "{x}.nope", "API.EXAMPLE.ORG"})
			}
			deleted = true
			w.Ops = append(w.Ops, op)
		case k < 38 && len(ics) < 3:
			ic := pick(r, []string{"digit", "word", "\\d+", "[a-z]+"}) // also: an interceptor registered under the text of a regexp rule already in use
			if contains(ics, ic) {
				continue
			}
			ics = append(ics, ic)
			w.Ops = append(w.Ops, Op{K: "regic", Name: ic})
		default:
			host := ""
			switch r.Intn(8) {
			case 0, 1, 2, 3:
				if len(liveKeys) == 0 {
					host = pick(r, hostLits)
				} else {
					host, _ = live[pick(r, liveKeys)].Witness(r)
				}
			case 4:
				p, _ := ParsePattern(pick(r, append(append([]string{}, hostLits...), usable(hostPats, ics)...)), ics)
				host, _ = p.Witness(r)
			case 5:
				if !deleted && len(liveKeys) > 0 {
					p := live[pick(r, liveKeys)]
					vals := map[string]string{}
					for _, t := range p.Tokens {
						if t.Kind != PLit {
							vals[t.Name] = pick(r, []string{"a.b", "api", "x.example", "1", "a1", "", "www.a", "-"})
						}
					}
					host = p.Fill(vals)
				} else {
					host = pick(r, hostLits)
				}
			case 6:
				host = pick(r, []string{"", "example.com.", ".example.com", "com", "[::1]", "localhost", "zz.example.com.x"})
			case 7:
				host = "q" + pick(r, hostLits)
			}
			host = randCase(r, host)
			if r.Pct(25) {
				host = upperNonASCII(host) // upper-case letters outside ASCII, possibly without any ASCII upper-case letter
			}
			switch r.Intn(9) {
			case 0:
				host += ":8080"
			case 6:
				// every digit, including the two ends of the range, and the bytes just outside it
				host += pick(r, []string{":0", ":9", ":09", ":65535", ":1900", ":" + fmt.Sprint(r.Intn(100000)), ":8/", ":/", ":8;"})
			case 1:
				host += ":"
			case 2:
				host += ":80a"
			case 3:
				host = "[" + host + "]:443"
			case 4:
				host = "[" + host + "]"
			case 5:
				host += pick(r, []string{":\uff18\uff10", ":\u0968\u0966", ":http", ":-1", ":8 0"}) // not valid ports
			}
			w.Ops = append(w.Ops, Op{K: "match", Req: &Req{Method: "GET", Path: "/", Host: host}})
		}
	}
	return w
}

func sortStrings(s []string) {
	for i := 1; i < len(s); i++ {
		for j := i; j > 0 && s[j] < s[j-1]; j-- {
			s[j], s[j-1] = s[j-1], s[j]
		}
	}
}

func execC14(w *World, st *Stats) (*Violation, RunInfo) {
	if w.Variant == "conc" {
		return execC14Conc(w, st)
	}
	simrt.SetPoolCfg(w.Pool)
	info := RunInfo{Shape: worldShape(w), Events: int64(len(w.Ops))}
	h := uint64(14695981039346656037)
	hs := mux.NewHosts(w.Opts.Lock)
	var ics []string
	live := map[string]*Pattern{}
	var order []string
	mutated, probed := false, false
	lastOutcome := map[string]string{}
	for i := range w.Ops {
		op := &w.Ops[i]
		st.C("op_" + op.K)
		mk := func(oracle, sig, detail string) *Violation {
			return &Violation{Prop: "C14", Oracle: oracle, Sig: sig, Detail: fmt.Sprintf("step %d %s: %s (domains %v)", i, op, detail, order), Step: i}
		}
		switch op.K {
		case "regic":
			hs.RegisterInterceptor(interceptorFunc(op.Name), op.Name)
			ics = append(ics, op.Name)
		case "add":
			low := strings.ToLower(op.Pattern)
			// parameter names keep their case in the model only through lower-casing the whole string, as documented
			p, ok := ParsePattern(low, ics)
			ds := []string{op.Pattern, "spare.invalid"}[:1] // the caller's buffer, reused right after the call
			pan := catch(func() { hs.Add(ds...) })
			ds[0] = "clobbered.invalid"
			if pan != nil || !ok {
				continue
			}
			if live[low] == nil {
				order = append(order, low)
			}
			live[low] = p
			mutated = true
			lastOutcome = map[string]string{} // an added domain may legitimately take over earlier probes
		case "delete":
			low := strings.ToLower(op.Pattern)
			if pan := catch(func() { hs.Delete(op.Pattern) }); pan != nil {
				if c := classifyPanic(pan); strings.HasPrefix(c, "runtime") {
					info.Hash = h
					return mk("no-panic", "delete-panic", "Delete panicked: "+c), info
				}
			}
			for host, prev := range lastOutcome {
				if strings.HasPrefix(prev, "match "+low+" ") {
					delete(lastOutcome, host) // probes of the deleted domain itself are not compared
				}
			}
			if live[low] != nil {
				delete(live, low)
				for k, d := range order {
					if d == low {
						order = append(order[:k], order[k+1:]...)
						break
					}
				}
			}
			mutated = true
			// every earlier probe whose domain is still registered keeps its outcome
			// (in sorted order: each probe takes a context from the process-wide pool, and which pooled
			// object later worlds get must not depend on Go's map iteration order)
			probeHosts := make([]string, 0, len(lastOutcome))
			for host := range lastOutcome {
				probeHosts = append(probeHosts, host)
			}
			sortStrings(probeHosts)
			for _, host := range probeHosts {
				prev := lastOutcome[host]
				if !strings.HasPrefix(prev, "match ") {
					continue
				}
				if strings.SplitN(prev, " ", 3)[1] == low {
					continue // the deleted domain itself
				}
				ok, params, pan := hostMatch(hs, host)
				if pan != nil {
					info.Hash = h
					return mk("no-panic", "match-panic", fmt.Sprintf("Match(%q) panicked after the delete: %v", host, pan)), info
				}
				now := "reject"
				if ok {
					now = "params " + fmtParams(params)
				}
				if want := "params " + strings.SplitN(prev, " ", 3)[2]; now != want {
					info.Hash = h
					return mk("others-untouched", "delete-changed-other", fmt.Sprintf("host %q matched %s before and gives %q now although a different domain was deleted", host, prev, now)), info
				}
			}
		case "match":
			st.C("hostile_request")
			host := op.Req.Host
			ok, params, pan := hostMatch(hs, host)
			if pan != nil {
				info.Hash = h
				return mk("no-panic", "match-panic", fmt.Sprintf("Match panicked: %v", pan)), info
			}
			probed = true
			var pats []*Pattern
			for _, d := range order {
				pats = append(pats, live[d])
			}
			nh := normHost(host)
			if nh == "" || nh == "*" {
				continue // an empty host is a hostile request (C05), not a name to resolve
			}
			adm := NewResolver(pats).Resolve(nh)
			h = hashStr(h, fmt.Sprint(ok, fmtParams(params)))
			st.C("c14_matches_checked")
			if len(adm) == 0 {
				if ok {
					return mk("reference-resolver", "accepted-unregistered", fmt.Sprintf("Match accepted host %q (normalised %q) with %s but no registered domain resolves", host, nh, fmtParams(params))), info
				}
				if len(params) != 0 {
					return mk("reject-clean", "reject-left-params", "Match rejected but left parameters "+fmtParams(params)), info
				}
				lastOutcome[host] = "reject"
				continue
			}
			if !ok {
				return mk("reference-resolver", "rejected-registered", fmt.Sprintf("Match rejected host %q (normalised %q); admissible %v", host, nh, outcomeKeys(adm))), info
			}
			found := false
			for _, a := range adm {
				if fmtParams(a.Params) == fmtParams(params) {
					found = true
					lastOutcome[host] = "match " + a.Pattern + " " + fmtParams(params)
				}
			}
			if !found {
				return mk("reference-resolver", "wrong-params", fmt.Sprintf("Match accepted host %q with %s; admissible %v", host, fmtParams(params), outcomeKeys(adm))), info
			}
		}
	}
	info.Hash = h
	info.Nontrivial = mutated && probed
	return nil, info
}

func hostMatch(hs *mux.Hosts, host string) (ok bool, params map[string]string, pan any) {
	rec := &ReqRec{}
	req := buildRequest(Req{Method: "GET", Path: "/", Host: host}, rec)
	pan = catch(func() {
		ctx := types.NewContext()
		defer ctx.Destroy()
		ok = hs.Match(req, ctx)
		params = snapshotParams(ctx)
	})
	return
}

func init() {
	register(&PropImpl{ID: "C14", Gen: genC14, Exec: execC14})
}

// ---- C13: Group dispatch -----------------------------------------------------------------------------

// MSpec describes a matcher (JSON inside Op.Args is avoided: it is encoded in a small string grammar).
//
//	nil | hosts(d1,d2) | pv(param;v1,v2) | hv(param;v1,v2) | and(a|b) | or(a|b) | sim(accept-substr;param;rewrite)
type MSpec struct {
	K    string   `json:"k"`
	A    []string `json:"a,omitempty"`
	Sub  []*MSpec `json:"sub,omitempty"`
}

func buildMatcher(s *MSpec) mux.Matcher {
	if s == nil {
		return nil
	}
	switch s.K {
	case "nil":
		return nil
	case "hosts":
		return mux.NewHosts(false, s.A...)
	case "pv":
		return mux.NewPathVersion(s.A[0], append([]string{}, s.A[1:]...)...)
	case "hv":
		param, key := hvParamKey(s.A[0])
		return mux.NewHeaderVersion(param, key, func(error) {}, s.A[1:]...)
	case "and", "or":
		var subs []mux.Matcher
		for _, x := range s.Sub {
			m := buildMatcher(x)
			if m == nil {
				m = mux.MatcherFunc(func(*http.Request, *types.Context) bool { return true })
			}
			subs = append(subs, m)
		}
		if s.K == "and" {
			return mux.AndMatcher(subs...)
		}
		return mux.OrMatcher(subs...)
	case "sim":
		// accepts iff the path contains A[0]; on accept optionally sets a param and rewrites the path.
		// A rejecting simulated matcher never mutates (the Matcher contract).
		sub, param, rewrite := s.A[0], s.A[1], s.A[2]
		return mux.MatcherFunc(func(r *http.Request, ctx *types.Context) bool {
			if !strings.Contains(r.URL.Path, sub) {
				return false
			}
			if param != "" {
				ctx.Set(param, "sim-"+sub)
			}
			if rewrite != "" {
				r.URL.Path = strings.Replace(r.URL.Path, sub, rewrite, 1)
			}
			return true
		})
	}
	return nil
}

// interestingSpecs: shapes that random nesting reaches rarely - a composite that rejects after an
// outer member captured a parameter of the SAME name, inside an Or that goes on.
var interestingSpecs = []string{
	"and(pv[ver,v1] | or(and(sim[/x,ver,] | hv[hver,9]) | nil[]))",
	"and(sim[/x,ver,] | or(and(pv[ver,v1,v2] | hosts[nobody.com]) | sim[/,,]))",
	"and(hosts[{sub}.c.com] | or(and(sim[/x,sub,] | hv[,9]) | pv[v,v1,v2]))",
	"or(and(pv[ver,v1] | and(sim[/x,ver,/y] | hosts[nobody.com])) | pv[ver,v1])",
}

func genMSpec(r *Rng, depth int) *MSpec {
	if depth == 1 && r.Pct(12) {
		return decodeSpec(pick(r, interestingSpecs))
	}
	k := r.Intn(10)
	if depth >= 3 && k >= 6 {
		k = r.Intn(6)
	}
	switch k {
	case 0:
		return &MSpec{K: "nil"}
	case 1, 2:
		ds := []string{pick(r, []string{"a.com", "b.com", "{sub}.c.com", "api.a.com"})}
		if r.Pct(30) {
			ds = append(ds, pick(r, []string{"d.com", "{n:\\d+}.e.com"}))
		}
		return &MSpec{K: "hosts", A: ds}
	case 3, 4:
		a := []string{pick(r, []string{"ver", "", "v"}), pick(r, []string{"v1", "v2", "v11"})}
		if r.Pct(40) {
			a = append(a, pick(r, []string{"v3", "/v1/", "v2"}))
		}
		return &MSpec{K: "pv", A: a}
	case 5:
		// "param@key": the Accept parameter that carries the version ("version" when absent)
		return &MSpec{K: "hv", A: []string{pick(r, []string{"hver", "", "hver@v", "@v", "hv2@v"}), pick(r, []string{"1", "2", ""}), "3"}}
	case 6, 7:
		n := r.Range(2, 3)
		s := &MSpec{K: "and"}
		for i := 0; i < n; i++ {
			s.Sub = append(s.Sub, genMSpec(r, depth+1))
		}
		return s
	case 8:
		n := r.Range(2, 3)
		s := &MSpec{K: "or"}
		for i := 0; i < n; i++ {
			s.Sub = append(s.Sub, genMSpec(r, depth+1))
		}
		return s
	default:
		return &MSpec{K: "sim", A: []string{pick(r, []string{"/x", "/v1", "/api", "a"}), pick(r, []string{"", "simp", "ver"}), pick(r, []string{"", "/y", ""})}}
	}
}

type c13Op struct {
	Op
}

func genC13(r *Rng, idx int, tier string) *World {
	w := &World{Extra: map[string]string{}}
	w.Pool = genPoolCfg(r)
	var routers []string
	hid, mwN := 100, 0
	n := r.Range(5, 16)
	for i := 0; i < n; i++ {
		op := Op{T: r.Intn(3)}
		switch k := r.Intn(100); {
		case k < 30 && len(routers) < 4 || len(routers) == 0:
			op.K = pick(r, []string{"gnew", "gadd"})
			op.Name = fmt.Sprintf("rt%d", i)
			if len(routers) > 0 && r.Pct(12) {
				op.Name = pick(r, routers) // a name that is taken: Add/New must refuse it
				op.HID = r.Intn(2)
			} else {
				routers = append(routers, op.Name)
			}
			spec := genMSpec(r, 1)
			op.Args = []string{encodeSpec(spec), ""}
			if op.K == "gnew" && r.Pct(30) {
				op.Args[1] = "trace" // this router (only) is created with a TRACE handler
			}
		case k < 38:
			op.K, op.Name = "gremove", pick(r, routers)
			if r.Pct(20) {
				op.Name = "nobody"
			}
		case k < 48:
			mwN++
			op.K = "guse"
			op.MW = []string{fmt.Sprintf("G%d", mwN)}
		default:
			op.K, op.Name = "handle", pick(r, routers)
			hid++
			op.HID = hid
			op.Pattern = pick(r, []string{"/x", "/x/{id}", "/y", "/v1/x", "/{any}", "/api/{id:\\d+}", "/y/{id}", "/"})
			op.Methods = []string{"GET"}
		}
		w.Ops = append(w.Ops, op)
	}
	nreq := r.Range(6, 20)
	for i := 0; i < nreq; i++ {
		q := Req{Method: pick(r, []string{"GET", "GET", "GET", "POST", "OPTIONS", "TRACE"}),
			Path: pick(r, []string{"", "/v1", "/v2", "/v11", "/v3", "/api"}) + pick(r, []string{"/x", "/x/5", "/y", "/y/zk", "/", "/api/7", "/nope", "/v1/x", "", ""}), // also exactly a version, and the empty path
			Host: pick(r, []string{"a.com", "b.com", "zz.c.com", "api.a.com", "d.com", "7.e.com", "other.org", "A.COM:80", "a.com:http", "b.com:80a", "d.com:-1", "api.a.com:"})}
		if r.Pct(50) {
			q.Hdr = map[string]string{"Accept": pick(r, []string{"application/json; version=1", "application/json; version=2", "text/html", "application/json; version=3",
				"application/json; version=1; v=3", "application/json; v=1", "application/json; v=2; version=3", "application/json; version=3; v=1", "application/json; version="})}
		}
		w.Ops = append(w.Ops, Op{T: 10, K: "req", Req: &q})
	}
	if r.Pct(35) && len(routers) > 0 {
		// a second administrative phase on the group that has already served requests, then the same
		// requests again (and the group must answer from its current routers, not from what it saw before)
		first := append([]Op{}, w.Ops[n:]...)
		for k := r.Range(1, 3); k > 0; k-- {
			op := Op{T: r.Intn(3)}
			switch r.Intn(4) {
			case 0, 1:
				op.K, op.Name = "gremove", pick(r, routers)
			case 2:
				op.K = pick(r, []string{"gnew", "gadd"})
				op.Name = fmt.Sprintf("late%d", k)
				routers = append(routers, op.Name)
				op.Args = []string{encodeSpec(genMSpec(r, 1)), ""}
			default:
				op.K, op.Name = "handle", pick(r, routers)
				hid++
				op.HID = hid
				op.Pattern = pick(r, []string{"/x", "/x/{id}", "/y", "/late", "/{any}", "/"})
				op.Methods = []string{"POST"}
			}
			w.Ops = append(w.Ops, op)
		}
		for _, q := range first {
			if r.Pct(70) {
				rq := *q.Req
				w.Ops = append(w.Ops, Op{T: 10, K: "req", Req: &rq})
			}
		}
	}
	return w
}

func encodeSpec(s *MSpec) string {
	switch s.K {
	case "and", "or":
		var parts []string
		for _, x := range s.Sub {
			parts = append(parts, encodeSpec(x))
		}
		return s.K + "(" + strings.Join(parts, " | ") + ")"
	default:
		return s.K + "[" + strings.Join(s.A, ",") + "]"
	}
}

// decodeSpec parses encodeSpec's output.
func decodeSpec(s string) *MSpec {
	s = strings.TrimSpace(s)
	if strings.HasPrefix(s, "and(") || strings.HasPrefix(s, "or(") {
		k := s[:strings.IndexByte(s, '(')]
		inner := s[len(k)+1 : len(s)-1]
		m := &MSpec{K: k}
		depth, start := 0, 0
		for i := 0; i < len(inner); i++ {
			switch inner[i] {
			case '(', '[':
				depth++
			case ')', ']':
				depth--
			case '|':
				if depth == 0 {
					m.Sub = append(m.Sub, decodeSpec(inner[start:i]))
					start = i + 1
				}
			}
		}
		m.Sub = append(m.Sub, decodeSpec(inner[start:]))
		return m
	}
	i := strings.IndexByte(s, '[')
	if i < 0 {
		return &MSpec{K: "nil"}
	}
	m := &MSpec{K: s[:i]}
	if body := s[i+1 : len(s)-1]; body != "" || m.K != "nil" {
		m.A = strings.Split(body, ",")
	}
	return m
}

type c13Group struct {
	override mux.Matcher // twin only: used instead of the router's own matcher
	routers map[string]*mux.Router[*Comp]
	env   *Env
	g     *mux.Group[*Comp]
	specs map[string]*MSpec
	order []string
	guse  []string
	dupAccepted []string
}

type c13RefTwin struct {
	cg *c13Group
	ok bool
	st refState
}

// buildC13 replays the administrative history; only != "" keeps just that router (the stand-alone twin).
func buildC13(w *World, upto int, only string) *c13Group { return buildC13With(w, upto, only, nil) }

func buildC13With(w *World, upto int, only string, override mux.Matcher) *c13Group {
	env := NewEnv()
	cg := &c13Group{env: env, specs: map[string]*MSpec{}, routers: map[string]*mux.Router[*Comp]{}, override: override}
	cg.g = mux.NewGroup[*Comp](env.Call, env.Group404(idG404), env.NotAllowedBuilder(id405), env.OptionsBuilder(idOptions))
	for i := 0; i < upto && i < len(w.Ops); i++ {
		cg.apply(&w.Ops[i], only)
	}
	return cg
}

// apply executes one administrative op on the group (requests are ignored); only != "" restricts the
// group to that one router (the stand-alone twin).
func (cg *c13Group) apply(op *Op, only string) {
	env, routers := cg.env, cg.routers
	catch(func() {
		switch op.K {
		case "gnew", "gadd":
			if only != "" && op.Name != only {
				return
			}
			spec := decodeSpec(op.Args[0])
			if routers[op.Name] != nil {
				// the name is taken: the call must be refused (it panics) and change nothing
				switch {
				case op.K == "gnew":
					cg.g.New(op.Name, buildMatcher(spec))
				case op.HID%2 == 0:
					// the member router object itself, offered again with another matcher
					cg.g.Add(buildMatcher(spec), routers[op.Name])
				default:
					cg.g.Add(buildMatcher(spec), NewSimRouter(env, RouterOpts{Name: op.Name}))
				}
				cg.dupAccepted = append(cg.dupAccepted, op.Name)
				return
			}
			var r *mux.Router[*Comp]
			matcher := buildMatcher(spec)
			if cg.override != nil {
				matcher = cg.override
			}
			if op.K == "gnew" {
				var extra []mux.Option
				if len(op.Args) > 1 && op.Args[1] == "trace" {
					extra = append(extra, mux.WithTrace(env.TraceH(idTrace)))
				}
				r = cg.g.New(op.Name, matcher, extra...)
			} else {
				r = NewSimRouter(env, RouterOpts{Name: op.Name})
				cg.g.Add(matcher, r)
			}
			routers[op.Name] = r
			cg.specs[op.Name] = spec
			cg.order = append(cg.order, op.Name)
		case "gremove":
			cg.g.Remove(op.Name)
			if routers[op.Name] != nil {
				delete(routers, op.Name)
				delete(cg.specs, op.Name)
				for k, n := range cg.order {
					if n == op.Name {
						cg.order = append(cg.order[:k], cg.order[k+1:]...)
						break
					}
				}
			}
		case "guse":
			cg.g.Use(env.MWs(op.MW...)...)
			cg.guse = append(cg.guse, op.MW...)
		case "handle":
			if r := routers[op.Name]; r != nil {
				r.Handle(op.Pattern, env.Handler(op.HID, nil), nil, op.Methods...)
			}
		}
	})
}

// refState is what a matcher has done to the request so far.
type refState struct {
	path   string
	params map[string]string
}

func matchOnce(m mux.Matcher, q Req, st refState) (ok bool, after refState) {
	rec := &ReqRec{}
	q.Path = st.path
	req := buildRequest(q, rec)
	after = st
	catch(func() {
		ctx := types.NewContext()
		defer ctx.Destroy()
		pk := make([]string, 0, len(st.params))
		for k := range st.params {
			pk = append(pk, k)
		}
		sortStrings(pk)
		for _, k := range pk {
			ctx.Set(k, st.params[k])
		}
		ok = m.Match(req, ctx)
		after = refState{path: req.URL.Path, params: snapshotParams(ctx)}
	})
	return
}

// refEval is the reference semantics of matcher composition: leaves are the
// real matchers run on copies, And/Or are composed here so that a rejection -
// at any depth - leaves no trace.
func refEval(spec *MSpec, q Req, st refState) (bool, refState) {
	switch spec.K {
	case "nil":
		return true, st
	case "and":
		cur := st
		for _, sub := range spec.Sub {
			ok, ns := refEval(sub, q, cur)
			if !ok {
				return false, st
			}
			cur = ns
		}
		return true, cur
	case "or":
		for _, sub := range spec.Sub {
			if ok, ns := refEval(sub, q, st); ok {
				return true, ns
			}
		}
		return false, st
	case "hv":
		// modelled here, not run: the header matcher is a pure function of the Accept header, its key and
		// its version list (whatever it remembers between calls or shares with other matchers must not show)
		param, key := hvParamKey(spec.A[0])
		if key == "" {
			key = "version"
		}
		acc := q.Hdr["Accept"]
		if acc == "" {
			return false, st
		}
		_, ps, err := mime.ParseMediaType(acc)
		if err != nil {
			return false, st
		}
		for _, v := range spec.A[1:] {
			if v == ps[key] {
				ns := refState{path: st.path, params: map[string]string{}}
				for k, x := range st.params {
					ns.params[k] = x
				}
				if param != "" {
					ns.params[param] = v
				}
				return true, ns
			}
		}
		return false, st
	default:
		ok, ns := matchOnce(buildMatcher(spec), q, st)
		if !ok {
			return false, st
		}
		return true, ns
	}
}

func hvParamKey(a string) (param, key string) {
	if i := strings.IndexByte(a, '@'); i >= 0 {
		return a[:i], a[i+1:]
	}
	return a, ""
}

func obsKey13(o *Obs) string {
	return fmt.Sprintf("%s router=%s path=%q trace=%v", o.Key(), o.Router, o.PathSeen, o.Trace)
}

func execC13(w *World, st *Stats) (*Violation, RunInfo) {
	simrt.SetPoolCfg(w.Pool)
	info := RunInfo{Shape: worldShape(w), Events: int64(len(w.Ops))}
	h := uint64(14695981039346656037)
	nAdmin := 0
	for nAdmin < len(w.Ops) && w.Ops[nAdmin].K != "req" {
		nAdmin++
	}
	cg := buildC13(w, nAdmin, "")
	// router names stay unique
	if len(cg.dupAccepted) > 0 {
		return &Violation{Prop: "C13", Oracle: "unique-names", Sig: "duplicate-name-accepted", Detail: fmt.Sprintf("Group.Add/New accepted a second router named %v", cg.dupAccepted)}, info
	}
	seen := map[string]bool{}
	for _, r := range cg.g.Routers() {
		if seen[r.Name()] {
			return &Violation{Prop: "C13", Oracle: "unique-names", Sig: "duplicate-name", Detail: "two routers named " + r.Name()}, info
		}
		seen[r.Name()] = true
	}
	twins := map[string]*c13Group{}
	refTwins := map[string]*c13RefTwin{}
	probed := false
	for i := nAdmin; i < len(w.Ops); i++ {
		op := &w.Ops[i]
		if op.K != "req" {
			// a later administrative phase: applied to the same group object, so that whatever it
			// remembers from the requests served so far is still there
			cg.apply(op, "")
			twins = map[string]*c13Group{}
			refTwins = map[string]*c13RefTwin{}
			st.C("c13_late_admin")
			if len(cg.dupAccepted) > 0 {
				return &Violation{Prop: "C13", Oracle: "unique-names", Sig: "duplicate-name-accepted", Detail: fmt.Sprintf("Group.Add/New accepted a second router named %v", cg.dupAccepted)}, info
			}
			continue
		}
		st.C("op_req")
		mk := func(oracle, sig, detail string) *Violation {
			var ms []string
			for _, n := range cg.order {
				ms = append(ms, n+"="+encodeSpec(cg.specs[n]))
			}
			return &Violation{Prop: "C13", Oracle: oracle, Sig: sig, Detail: fmt.Sprintf("%s hdr=%v | routers %v | %s", op.Req, op.Req.Hdr, ms, detail), Step: i}
		}
		// matcher composition: the real composite against the reference semantics
		for _, name := range cg.order {
			spec := cg.specs[name]
			if spec.K != "and" && spec.K != "or" {
				continue
			}
			st.C("c13_composites_checked")
			start := refState{path: op.Req.Path, params: map[string]string{}}
			wantOK, want := refEval(spec, *op.Req, start)
			gotOK, got := matchOnce(buildMatcher(spec), *op.Req, start)
			if gotOK != wantOK {
				return mk("matcher-composition", "composite-verdict", fmt.Sprintf("matcher %s: accepts=%v, composing its members gives %v", encodeSpec(spec), gotOK, wantOK)), info
			}
			if !gotOK {
				want = start // a rejection leaves no trace
			}
			if got.path != want.path || fmtParams(got.params) != fmtParams(want.params) {
				sig := "composite-trace-after-accept"
				if !gotOK {
					sig = "reject-left-trace"
				}
				return mk("matcher-composition", sig, fmt.Sprintf("matcher %s (accepted=%v) left path=%q params=%s, want path=%q params=%s", encodeSpec(spec), gotOK, got.path, fmtParams(got.params), want.path, fmtParams(want.params))), info
			}
		}
		// reference: first router, in Add order, whose matcher accepts the request as originally received
		winner := ""
		for _, name := range cg.order {
			m := buildMatcher(cg.specs[name])
			if m == nil {
				winner = name
				break
			}
			rec := &ReqRec{}
			req := buildRequest(*op.Req, rec)
			ok := false
			catch(func() {
				ctx := types.NewContext()
				defer ctx.Destroy()
				ok = m.Match(req, ctx)
			})
			if ok {
				winner = name
				break
			}
		}
		got := Serve(cg.g, *op.Req, nil, nil)
		h = hashStr(h, obsKey13(&got))
		probed = true
		if got.Panic != "" || got.Zero {
			continue // C05
		}
		if winner == "" {
			st.C("c13_no_acceptor")
			want := reverseStr(cg.guse)
			if got.Kind != KGroup404 || got.Router != "" {
				return mk("first-acceptor", "served-without-acceptor", fmt.Sprintf("no matcher accepts the original request, but got %s", obsKey13(&got))), info
			}
			if strings.Join(got.Trace, ",") != strings.Join(want, ",") {
				return mk("group-notfound", "notfound-middlewares", fmt.Sprintf("group not-found ran %v, want the group's Use stack %v", got.Trace, want)), info
			}
			continue
		}
		st.C("c13_acceptor")
		tw := twins[winner]
		if tw == nil {
			tw = buildC13(w, i, winner) // every administrative op so far (requests are skipped)
			twins[winner] = tw
		}
		want := Serve(tw.g, *op.Req, nil, nil)
		// second twin: the same router behind a matcher that merely replays what the reference semantics
		// say the real matcher produces (path and parameters) - whatever else a matcher leaves behind in
		// the context on its way (scratch values of members that rejected) must not reach the router
		rt := refTwins[winner]
		if rt == nil {
			rt = &c13RefTwin{}
			box := rt
			rt.cg = buildC13With(w, i, winner, mux.MatcherFunc(func(r *http.Request, ctx *types.Context) bool {
				if !box.ok {
					return false
				}
				r.URL.Path = box.st.path
				ks := make([]string, 0, len(box.st.params))
				for k := range box.st.params {
					ks = append(ks, k)
				}
				sortStrings(ks)
				for _, k := range ks {
					ctx.Set(k, box.st.params[k])
				}
				return true
			}))
			refTwins[winner] = rt
		}
		rt.ok, rt.st = refEval(cg.specs[winner], *op.Req, refState{path: op.Req.Path, params: map[string]string{}})
		if rt.ok {
			wantRef := Serve(rt.cg.g, *op.Req, nil, nil)
			if wantRef.Panic == "" && !wantRef.Zero && obsKey13(&got) != obsKey13(&wantRef) {
				return mk("first-acceptor", "differs-from-reference-matcher", fmt.Sprintf("first acceptor is %s; behind a matcher that only replays the reference result (path %q, params %s) it answers %s; the group answered %s", winner, rt.st.path, fmtParams(rt.st.params), obsKey13(&wantRef), obsKey13(&got))), info
			}
		}
		if got.Router != winner && got.Kind != KGroup404 {
			// Route.RouterName is documented as the name of the router that serves the request
			return mk("first-acceptor", "wrong-router", fmt.Sprintf("first acceptor is %s but the handler that ran saw router name %q (%s)", winner, got.Router, obsKey13(&got))), info
		}
		if obsKey13(&got) != obsKey13(&want) {
			sig := "differs-from-standalone"
			if got.Router != winner {
				sig = "wrong-router"
			}
			return mk("first-acceptor", sig, fmt.Sprintf("first acceptor is %s; alone it answers %s; the group answered %s", winner, obsKey13(&want), obsKey13(&got))), info
		}
	}
	info.Hash = h
	info.Nontrivial = probed && len(cg.order) > 0
	return nil, info
}

func init() {
	register(&PropImpl{ID: "C13", Gen: genC13, Exec: execC13})
}
