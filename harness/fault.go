package main

import (
	"bytes"
	"fmt"
	"sync"
	"log"
	"log/slog"
	"net/http"
	"strconv"
	"strings"

	mux "github.com/issue9/mux/v9"
	"github.com/issue9/mux/v9/simrt"
)

// FAULT world (C16): panics injected at every user-code site, in sequences of
// faulting and normal requests, sequentially and (locked router) concurrently.

const recStatus = 503

type faultSubject struct {
	env    *Env
	h      http.Handler
	recs   []*ReqRec // by request index
	calls  []int     // recover-func invocations by request index (each slot written by its own request only)
	vals   []any
	stray  int // recover func called without a request id
	sink   *lockedSink
	sinkN  int
	routers []*mux.Router[*Comp]
}

// lockedSink is the io.Writer handed to the bundled write/log/slog recovery
// options: goroutine-safe, as a real log destination would be.
type lockedSink struct {
	mu  sync.Mutex
	buf bytes.Buffer
}

func (s *lockedSink) Write(p []byte) (int, error) {
	s.mu.Lock()
	defer s.mu.Unlock()
	return s.buf.Write(p)
}

func (s *lockedSink) Len() int {
	s.mu.Lock()
	defer s.mu.Unlock()
	return s.buf.Len()
}

func (s *lockedSink) Bytes() []byte {
	s.mu.Lock()
	defer s.mu.Unlock()
	return append([]byte{}, s.buf.Bytes()...)
}

const reqIDKey = "\x00sim-req"

func (fs *faultSubject) recoverFunc(w http.ResponseWriter, v any) {
	ids := w.Header()[reqIDKey]
	if len(ids) != 1 {
		fs.stray++
		return
	}
	idx, _ := strconv.Atoi(ids[0])
	fs.calls[idx]++
	fs.vals[idx] = v
	http.Error(w, "recovered", recStatus)
}

// icFunc is a user-supplied interceptor ("sim" rule) that can be made to panic:
// the value boom<N> makes it throw request N's armed "ic" fault.
func (fs *faultSubject) icFunc(v string) bool {
	if strings.HasPrefix(v, "boom") {
		if idx, err := strconv.Atoi(v[4:]); err == nil && idx >= 0 && idx < len(fs.recs) && fs.recs[idx] != nil {
			fs.recs[idx].maybeFault("ic", "pre")
		}
		return true
	}
	for i := 0; i < len(v); i++ {
		if v[i] < '0' || v[i] > '9' {
			return false
		}
	}
	return len(v) > 0
}

func (fs *faultSubject) option(kind string) []mux.Option {
	switch kind {
	case "func":
		return []mux.Option{mux.WithRecovery(fs.recoverFunc)}
	case "status":
		return []mux.Option{mux.WithStatusRecovery(recStatus)}
	case "write":
		return []mux.Option{mux.WithWriteRecovery(recStatus, fs.sink)}
	case "log":
		return []mux.Option{mux.WithLogRecovery(recStatus, log.New(fs.sink, "", 0))}
	case "slog":
		return []mux.Option{mux.WithSLogRecovery(recStatus, slog.New(slog.NewTextHandler(fs.sink, nil)))}
	}
	return nil
}

// buildFaultSubject builds the router or group of a FAULT world from w.Setup.
func buildFaultSubject(w *World, nreq int) *faultSubject {
	env := NewEnv()
	fs := &faultSubject{env: env, recs: make([]*ReqRec, nreq), calls: make([]int, nreq), vals: make([]any, nreq), sink: &lockedSink{}}
	opts := append(fs.option(w.Opts.Recovery), mux.WithInterceptor(fs.icFunc, "sim"))
	if w.Variant == "group" || w.Variant == "group-conc" {
		base := RouterOpts{Lock: w.Opts.Lock, Trace: w.Opts.Trace}
		gopts := base.muxOptions(env, opts...)
		g := mux.NewGroup[*Comp](env.Call, env.Group404(idG404), env.NotAllowedBuilder(id405), env.OptionsBuilder(idOptions), gopts...)
		routers := map[string]*mux.Router[*Comp]{}
		for i := range w.Setup {
			op := &w.Setup[i]
			catch(func() {
				switch op.K {
				case "gnew":
					var extra []mux.Option
					if len(op.Args) > 0 && op.Args[0] != "" { // router-level override of the recovery option
						extra = fs.option(op.Args[0])
					}
					routers[op.Name] = g.New(op.Name, mux.NewHosts(false, op.Name+".example.com"), extra...)
					fs.routers = append(fs.routers, routers[op.Name])
				case "gadd":
					// a router built on its own, with its own recovery configuration (possibly none), attached with
					// Group.Add: it keeps its options - the group's recovery option is not its business
					own := append(fs.option(op.Args[0]), mux.WithInterceptor(fs.icFunc, "sim"))
					r := NewSimRouter(env, RouterOpts{Name: op.Name, Lock: w.Opts.Lock, Trace: w.Opts.Trace}, own...)
					g.Add(mux.NewHosts(false, op.Name+".example.com"), r)
					routers[op.Name] = r
					fs.routers = append(fs.routers, r)
				case "guse":
					g.Use(env.MWs(op.MW...)...)
				case "use":
					routers[op.Name].Use(env.MWs(op.MW...)...)
				case "handle":
					r := routers[op.Name]
					if strings.HasPrefix(op.Via, "prefix:") {
						r.Prefix(op.Via[7:], env.MWs(op.Args...)...).Handle(strings.TrimPrefix(op.Pattern, op.Via[7:]), env.Handler(op.HID, op.Script), env.MWs(op.MW...), op.Methods...)
					} else {
						r.Handle(op.Pattern, env.Handler(op.HID, op.Script), env.MWs(op.MW...), op.Methods...)
					}
				}
			})
		}
		fs.h = g
		return fs
	}
	r := NewSimRouter(env, w.Opts, opts...)
	fs.routers = append(fs.routers, r)
	for i := range w.Setup {
		op := &w.Setup[i]
		catch(func() {
			switch op.K {
			case "use":
				r.Use(env.MWs(op.MW...)...)
			case "handle":
				if strings.HasPrefix(op.Via, "prefix:") {
					r.Prefix(op.Via[7:], env.MWs(op.Args...)...).Handle(strings.TrimPrefix(op.Pattern, op.Via[7:]), env.Handler(op.HID, op.Script), env.MWs(op.MW...), op.Methods...)
				} else {
					r.Handle(op.Pattern, env.Handler(op.HID, op.Script), env.MWs(op.MW...), op.Methods...)
				}
			}
		})
	}
	fs.h = r
	return fs
}

// serveIdx performs request number idx on the subject.
func (fs *faultSubject) serveIdx(idx int, q Req, faults []*FaultSpec) Obs {
	var fcopy []*FaultSpec
	for k, f := range faults {
		c := &FaultSpec{Site: f.Site, Phase: f.Phase, Val: f.Val}
		c.value = c.makeValue(idx*10 + k)
		fcopy = append(fcopy, c)
	}
	rec := &ReqRec{Faults: fcopy}
	fs.recs[idx] = rec
	conn := NewConn()
	conn.hdr[reqIDKey] = []string{strconv.Itoa(idx)}
	req := buildRequest(q, rec)
	var o Obs
	func() {
		defer func() {
			if p := recover(); p != nil {
				o.Panic = classifyPanic(p)
				o.PanicVal = p
			}
		}()
		fs.h.ServeHTTP(conn, req)
	}()
	conn.Finish()
	o.Status = conn.Status
	o.HID, o.Kind, o.Pattern, o.NodeNil = rec.HID, rec.Kind, rec.Pattern, rec.NodeNil
	o.Params, o.Router, o.PathSeen, o.Trace = rec.Params, rec.Router, rec.PathSeen, rec.Trace
	o.Zero, o.Called = rec.Zero, rec.Called
	o.Allow = conn.Wire.Get("Allow")
	o.BodyLen = conn.BodyLen
	o.Rec, o.Conn = rec, conn
	return o
}

func firedFault(rec *ReqRec) *FaultSpec {
	for _, f := range rec.Faults {
		if f.fired {
			return f
		}
	}
	return nil
}

func sameValue(a, b any) bool {
	defer func() { recover() }() // uncomparable dynamic types
	return a == b
}

var faultSites = []string{"h:route", "h:route", "h:head", "h:options", "h:405", "h:404", "h:trace", "h:g404"}

func genC16(r *Rng, idx int, tier string) *World {
	w := &World{}
	w.Pool = genPoolCfg(r)
	w.Opts = RouterOpts{Name: "r", Trace: r.Pct(50), Interceptors: []string{"digit"}}
	w.Opts.Recovery = pick(r, []string{"func", "func", "status", "write", "log", "slog", "none"})
	group := r.Pct(40)
	conc := r.Pct(35)
	switch {
	case group && conc:
		w.Variant = "group-conc"
	case group:
		w.Variant = "group"
	case conc:
		w.Variant = "conc"
	default:
		w.Variant = "seq"
	}
	if conc {
		w.Opts.Lock = true
		w.Sim = genSim(r)
		// all recovery options take part in the concurrent variants (the sink is goroutine-safe)
	}
	var tags []string
	mwN, hid := 0, 100
	tag := func(k string) string { mwN++; t := fmt.Sprintf("%s%d", k, mwN); tags = append(tags, t); return t }
	var names []string
	if group {
		for i := r.Range(1, 3); i > 0; i-- {
			name := fmt.Sprintf("g%d", i)
			op := Op{K: "gnew", Name: name}
			if r.Pct(25) && w.Opts.Recovery != "none" && !conc {
				op.Args = []string{pick(r, []string{"func", "status"})}
			} else if r.Pct(20) && !conc {
				op = Op{K: "gadd", Name: name, Args: []string{pick(r, []string{"none", "none", "func", "status"})}}
			}
			w.Setup = append(w.Setup, op)
			names = append(names, name)
		}
		if r.Pct(70) {
			w.Setup = append(w.Setup, Op{K: "guse", MW: []string{tag("G")}})
		}
	} else {
		names = []string{""}
	}
	pats := []string{"/a", "/b/{id}", "/c/{id:digit}/x", "/p/q", "/p/{name}", "/i/{v:sim}/x"}
	type route struct{ name, pat, method string }
	var routes []route
	for _, name := range names {
		if r.Pct(60) {
			w.Setup = append(w.Setup, Op{K: "use", Name: name, MW: []string{tag("U")}})
		}
		shuffle(r, pats)
		for _, p := range pats[:r.Range(2, 4)] {
			hid++
			op := Op{K: "handle", Name: name, Pattern: p, HID: hid, Methods: []string{pick(r, []string{"GET", "GET", "POST"})}}
			if r.Pct(50) {
				op.MW = []string{tag("R")}
			}
			if r.Pct(35) {
				op.Via = "prefix:" + p[:2]
				op.Args = []string{tag("P")}
			}
			if r.Pct(40) {
				op.Script = genScript(r)
			}
			w.Setup = append(w.Setup, op)
			routes = append(routes, route{name, p, op.Methods[0]})
		}
		if r.Pct(40) {
			w.Setup = append(w.Setup, Op{K: "use", Name: name, MW: []string{tag("U")}})
		}
	}
	if group && r.Pct(40) {
		w.Setup = append(w.Setup, Op{K: "guse", MW: []string{tag("G")}})
	}
	nreq := r.Range(3, 10)
	armed := r.Range(1, 4)
	var reqs []Op
	for i := 0; i < nreq; i++ {
		rt := pick(r, routes)
		p, _ := ParsePattern(rt.pat, append([]string{"sim"}, w.Opts.Interceptors...))
		path, _ := p.Witness(r)
		if rt.pat == "/i/{v:sim}/x" {
			path = fmt.Sprintf("/i/%d/x", 100+i)
		}
		q := Req{Method: rt.method, Path: path}
		switch r.Intn(10) {
		case 0:
			q.Method = "OPTIONS"
		case 1:
			q.Method = "BOGUS"
		case 2:
			q.Path = "/definitely/not/there"
		case 3:
			q.Method = "TRACE"
		case 4:
			if rt.method == "GET" {
				q.Method = "HEAD"
			}
		}
		if group {
			q.Host = rt.name + ".example.com"
			if r.Pct(12) {
				q.Host = "nobody.example.org"
			}
		}
		reqs = append(reqs, Op{K: "req", Req: &q})
	}
	for a := 0; a < armed; a++ {
		i := r.Intn(len(reqs))
		f := &FaultSpec{Val: pick(r, []string{"ptr", "ptr", "err", "str", "struct", "rt", "abort"})}
		if strings.HasPrefix(reqs[i].Req.Path, "/i/") && reqs[i].Req.Host != "nobody.example.org" && r.Pct(70) {
			// the user's interceptor panics while the router is matching (inside its read lock)
			reqs[i].Req.Path = fmt.Sprintf("/i/boom%d/x", i)
			f.Site, f.Phase = "ic", "pre"
			reqs[i].Faults = append(reqs[i].Faults, f)
			continue
		}
		if len(tags) > 0 && r.Pct(45) {
			f.Site = "mw:" + pick(r, tags)
			f.Phase = pick(r, []string{"pre", "post"})
		} else {
			// a site this request will actually reach
			q := reqs[i].Req
			switch {
			case q.Host == "nobody.example.org":
				f.Site = "h:g404"
			case q.Method == "TRACE" && w.Opts.Trace:
				f.Site = "h:trace"
			case q.Path == "/definitely/not/there":
				f.Site = pick(r, []string{"h:404", "h:g404"})
			case q.Method == "OPTIONS":
				f.Site = "h:options"
			case q.Method == "BOGUS" || q.Method == "TRACE":
				f.Site = "h:405"
			case q.Method == "HEAD":
				f.Site = "h:head"
			default:
				f.Site = "h:route"
			}
			if r.Pct(15) {
				f.Site = pick(r, faultSites)
			}
			f.Phase = pick(r, []string{"pre", "pre", "mid"})
		}
		reqs[i].Faults = append(reqs[i].Faults, f)
	}
	if conc {
		nT := r.Range(2, 4)
		w.Tasks = make([][]Op, nT)
		for i, q := range reqs {
			q.N = i
			t := r.Intn(nT)
			q.T = t
			w.Tasks[t] = append(w.Tasks[t], q)
		}
		if r.Pct(60) {
			// somebody registers a route afterwards: it must not block behind a lock that a panicking request left held
			t := r.Intn(nT)
			w.Tasks[t] = append(w.Tasks[t], Op{T: t, K: "handle", Pattern: "/late", HID: 9999, Methods: []string{"PUT"}, N: -1})
		}
	} else {
		for i := range reqs {
			reqs[i].N = i
		}
		w.Ops = reqs
	}
	return w
}

func execC16(w *World, st *Stats) (*Violation, RunInfo) {
	simrt.SetPoolCfg(w.Pool)
	conc := len(w.Tasks) > 0
	var all []*Op
	if conc {
		for t := range w.Tasks {
			for i := range w.Tasks[t] {
				if w.Tasks[t][i].K == "req" {
					all = append(all, &w.Tasks[t][i])
				}
			}
		}
	} else {
		for i := range w.Ops {
			w.Ops[i].N = i
			all = append(all, &w.Ops[i])
		}
	}
	nreq := 0
	for _, op := range all {
		if op.N+1 > nreq {
			nreq = op.N + 1
		}
	}
	info := RunInfo{Shape: worldShape(w)}
	st.C("variant_" + w.Variant)
	st.C("recovery_" + w.Opts.Recovery)

	// fault-free twin: same subject recipe, same requests, no faults, sequential
	twin := buildFaultSubject(w, nreq)
	twinObs := make([]Obs, nreq)
	for _, op := range all {
		twinObs[op.N] = twin.serveIdx(op.N, *op.Req, nil)
	}

	fs := buildFaultSubject(w, nreq)
	obs := make([]Obs, nreq)
	sinkLen := make([]int, nreq+1)
	var sw *simrt.World
	if conc {
		var logs []opLog
		logs, sw = runTasks(w, func(task int, op *Op) string {
			if op.K == "handle" {
				if pan := applyAdmin(fs.env, fs.routers[0], op); pan != nil {
					return "admin-panic(" + classifyPanic(pan) + ")"
				}
				return "ok"
			}
			o := fs.serveIdx(op.N, *op.Req, op.Faults)
			obs[op.N] = o
			return reqKey(&o)
		})
		info.Interleave = sw.Hash()
		info.Events = sw.Steps()
		info.Sched = sw.Recorded()
		info.Shape = hashU(info.Shape, sw.Hash())
		info.Hash = foldLogs(sw.Hash(), logs)
		st.CN("preempt", sw.Preempts)
		st.C(fmt.Sprintf("strategy_%d", w.Sim.Strategy))
		if sw.WasAborted() {
			if sw.AbortReason == "deadlock" {
				return &Violation{Prop: "C16", Oracle: "deadlock", Sig: "deadlock", Detail: "requests block for ever after a panicking request (a lock is held across the panic)" + describeHistory(logs)}, info
			}
			st.Inconclusive["cap"]++
			return nil, info
		}
		for _, t := range sw.Tasks() {
			if t.Panic != nil {
				return &Violation{Prop: "C16", Oracle: "task-panic", Sig: "task-panic", Detail: fmt.Sprintf("task %s died: %v", t.Name, t.Panic)}, info
			}
		}
	} else {
		h := uint64(14695981039346656037)
		for _, op := range all {
			sinkLen[op.N] = fs.sink.Len()
			o := fs.serveIdx(op.N, *op.Req, op.Faults)
			obs[op.N] = o
			sinkLen[op.N+1] = fs.sink.Len()
			h = hashStr(h, reqKey(&o))
		}
		info.Hash = h
		info.Events = int64(nreq)
	}

	fired := 0
	for _, op := range all {
		i := op.N
		o := &obs[i]
		f := firedFault(fs.recs[i])
		mk := func(oracle, sig, detail string) *Violation {
			fd := "no fault fired"
			if f != nil {
				fd = fmt.Sprintf("fault %s/%s value %s", f.Site, f.Phase, f.Val)
			}
			return &Violation{Prop: "C16", Oracle: oracle, Sig: sig, Detail: fmt.Sprintf("request #%d %s (%s, recovery=%s, variant=%s): %s", i, op.Req, fd, w.Opts.Recovery, w.Variant, detail), Step: i}
		}
		// which recovery applies to this request: the group's, or the router-level override
		recovery := w.Opts.Recovery
		if name := strings.TrimSuffix(op.Req.Host, ".example.com"); name != op.Req.Host {
			for k := range w.Setup {
				if (w.Setup[k].K == "gnew" || w.Setup[k].K == "gadd") && w.Setup[k].Name == name && len(w.Setup[k].Args) > 0 && w.Setup[k].Args[0] != "" {
					recovery = w.Setup[k].Args[0]
				}
			}
		}
		if f == nil {
			// a normal request: served exactly like in the fault-free twin, no recovery activity
			tw := &twinObs[i]
			if o.Panic != "" {
				return mk("later-requests-normal", "normal-request-panicked", "panicked: "+o.Panic), info
			}
			if a, b := o.Key()+fmt.Sprint(o.Trace, o.BodyLen), tw.Key()+fmt.Sprint(tw.Trace, tw.BodyLen); a != b {
				return mk("later-requests-normal", "differs-from-fault-free-twin", fmt.Sprintf("got %s, fault-free twin %s", a, b)), info
			}
			if fs.calls[i] != 0 {
				return mk("exactly-once", "recover-without-panic", "the recovery function was called for a request in which nothing panicked"), info
			}
			if !conc && sinkLen[i+1] != sinkLen[i] {
				return mk("exactly-once", "recover-without-panic", "the recovery sink grew for a request in which nothing panicked"), info
			}
			continue
		}
		fired++
		st.C("fault_" + strings.SplitN(f.Site, ":", 2)[0] + "_" + f.Phase)
		st.C("fault_value_" + f.Val)
		if strings.HasPrefix(f.Site, "h:") {
			st.C("fault_site_" + f.Site[2:])
		}
		if recovery == "none" {
			if o.Panic == "" {
				return mk("pass-through", "panic-swallowed", "no recovery option is configured but the panic did not reach the caller of ServeHTTP"), info
			}
			if !sameValue(o.PanicVal, f.value) {
				return mk("pass-through", "panic-value-changed", fmt.Sprintf("caller recovered %#v, thrown %#v", o.PanicVal, f.value)), info
			}
			continue
		}
		if o.Panic != "" {
			return mk("contained", "panic-escaped", "a recovery option is configured but the panic escaped ServeHTTP: "+o.Panic), info
		}
		preWrite := f.Phase == "pre"
		switch recovery {
		case "func":
			if fs.calls[i] != 1 {
				return mk("exactly-once", "recover-count", fmt.Sprintf("the recovery function was called %d times", fs.calls[i])), info
			}
			if !sameValue(fs.vals[i], f.value) {
				return mk("original-value", "recover-value", fmt.Sprintf("the recovery function received %#v, thrown %#v", fs.vals[i], f.value)), info
			}
			if preWrite && o.Status != recStatus {
				return mk("contained", "recover-status", fmt.Sprintf("status %d, the recovery function wrote %d", o.Status, recStatus)), info
			}
		case "status":
			if preWrite && o.Status != recStatus {
				return mk("contained", "recover-status", fmt.Sprintf("status %d, WithStatusRecovery(%d)", o.Status, recStatus)), info
			}
		case "write", "log", "slog":
			if preWrite && o.Status != recStatus {
				return mk("contained", "recover-status", fmt.Sprintf("status %d, want %d", o.Status, recStatus)), info
			}
			if !conc {
				grown := fs.sink.Bytes()[sinkLen[i]:sinkLen[i+1]]
				txt := fmt.Sprint(f.value)
				if n := bytes.Count(grown, []byte(txt)); n < 1 {
					return mk("original-value", "sink-lacks-value", fmt.Sprintf("the recovery sink received %q which lacks the value's text %q", grown, txt)), info
				}
			}
		}
	}
	// every faulting request's value reaches the sink of a write/log/slog recovery
	if w.Opts.Recovery == "write" || w.Opts.Recovery == "log" || w.Opts.Recovery == "slog" {
		sink := fs.sink.Bytes()
		for _, op := range all {
			f := firedFault(fs.recs[op.N])
			if f == nil || (f.Val != "ptr" && f.Val != "err" && f.Val != "str" && f.Val != "struct") {
				continue
			}
			if name := strings.TrimSuffix(op.Req.Host, ".example.com"); name != op.Req.Host {
				over := false
				for k := range w.Setup {
					if (w.Setup[k].K == "gnew" || w.Setup[k].K == "gadd") && w.Setup[k].Name == name && len(w.Setup[k].Args) > 0 && w.Setup[k].Args[0] != "" {
						over = true
					}
				}
				if over {
					continue // this router overrides the recovery option
				}
			}
			txt := fmt.Sprint(f.value)
			// (how often one report repeats the text is the formatter's business: presence is what is demanded)
			if n := bytes.Count(sink, []byte(txt)); n == 0 {
				return &Violation{Prop: "C16", Oracle: "original-value", Sig: "sink-lacks-value", Detail: fmt.Sprintf("request #%d %s (fault %s/%s, recovery=%s, variant=%s): the value's text %q never reached the recovery sink", op.N, op.Req, f.Site, f.Phase, w.Opts.Recovery, w.Variant, txt), Step: op.N}, info
			}
			st.C("c16_sink_counts_checked")
		}
	}
	if fs.stray > 0 {
		return &Violation{Prop: "C16", Oracle: "exactly-once", Sig: "recover-stray", Detail: "the recovery function was called with a writer that belongs to no request"}, info
	}
	info.Nontrivial = fired > 0
	info.Shape = hashU(info.Shape, uint64(fired))
	return nil, info
}

func init() {
	register(&PropImpl{ID: "C16", Race: true, Gen: genC16, Exec: execC16})
}
