// Command h is the simulation worker: it generates and executes worlds for one
// property against the instrumented copy of the module under test.
//
//	h -prop C06 -seed 1 -from 0 -n 128 -tier quick -out res.json   run a batch
//	h -replay file.json                                            replay (exit 1 + VIOLATION line if reproduced)
//	h -min file.json -out min.json                                 minimise a failing world in-process
//	h -gen -prop C06 -seed 1 -from 7                               print world 7
package main

import (
	"bytes"
	"encoding/json"
	"flag"
	"fmt"
	"os"
	"os/exec"
	"sort"
	"time"

	"github.com/issue9/mux/v9/simrt"
)

type Found struct {
	World     *World     `json:"world"`
	Violation *Violation `json:"violation"`
}

type BatchResult struct {
	Prop     string           `json:"prop"`
	Seed     uint64           `json:"seed"`
	From     int              `json:"from"`
	N        int              `json:"n"`
	Done     int              `json:"done"`
	Stats    *Stats           `json:"stats"`
	Found    []Found          `json:"found"`
	SimCount map[string]int64 `json:"sim_counters"`
	SitesHit int              `json:"sites_hit"`
	HitSites []string         `json:"hit_sites"`
	Sites    int              `json:"sites_total"`
	WallS    float64          `json:"wall_s"`
	Race     bool             `json:"race_build"`
}

var simCounterNames = [...]string{"pool_fresh", "pool_reuse_newest", "pool_reuse_oldest", "pool_reuse_random", "pool_keep", "pool_drop", "pool_cross_task_reuse", "lock_blocked", "lock_acquire", "rlock_acquire", "u0", "u1", "u2", "u3", "u4", "u5", "u6", "u7"}

func worldSeed(seed uint64, prop string, idx int) uint64 {
	return mix64(seed ^ mix64(uint64(idx)+0x1000) ^ hashStr(7, prop))
}

func genWorld(impl *PropImpl, seed uint64, idx int, tier string) *World {
	ws := worldSeed(seed, impl.ID, idx)
	w := impl.Gen(NewRng(ws), idx, tier)
	w.Prop, w.Seed, w.Idx = impl.ID, ws, idx
	return w
}

func fatal(code int, format string, a ...any) {
	fmt.Fprintf(os.Stderr, "h: "+format+"\n", a...)
	os.Exit(code)
}

func main() {
	var (
		prop   = flag.String("prop", "", "property id")
		seed   = flag.Uint64("seed", 1, "base seed")
		from   = flag.Int("from", 0, "first world index")
		n      = flag.Int("n", 1, "number of worlds")
		tier   = flag.String("tier", "quick", "quick|thorough")
		out    = flag.String("out", "", "result file")
		replay = flag.String("replay", "", "replay file")
		minf   = flag.String("min", "", "minimise this failing world")
		gen    = flag.Bool("gen", false, "print the generated world")
		maxF   = flag.Int("maxfound", 8, "stop recording violations after this many")
		begin  = flag.Bool("begin", false, "print BEGIN <idx> to stderr before every world")
		budget = flag.Float64("budget", 0, "stop after this many seconds (0 = no limit)")
		selftest = flag.String("selftest", "", "determinism: print event hashes of worlds to this file")
		solo     = flag.Bool("solo", false, "C07 variant d child: world on stdin, observation log on stdout")
		fork     = flag.Bool("fork", false, "run every world in its own fresh child process (cold properties)")
		norecheck = flag.Bool("norecheck", false, "skip the in-run determinism re-check")
	)
	flag.Parse()
	if *solo {
		soloMain()
		return
	}
	warmup()
	simrt.ResetSiteHits()

	if *replay != "" {
		os.Exit(doReplay(*replay))
	}
	if *minf != "" {
		os.Exit(doMinimise(*minf, *out))
	}
	impl := props[*prop]
	if impl == nil {
		fatal(2, "unknown property %q", *prop)
	}
	if *gen {
		w := genWorld(impl, *seed, *from, *tier)
		b, _ := json.MarshalIndent(w, "", " ")
		fmt.Println(string(b))
		return
	}

	if *fork {
		os.Exit(forkBatch(*prop, *seed, *from, *n, *tier, *out, *budget))
	}
	start := time.Now()
	st := NewStats()
	res := &BatchResult{Prop: *prop, Seed: *seed, From: *from, N: *n, Stats: st, Race: simrt.RaceEnabled}
	var hashes []string
	for i := *from; i < *from+*n; i++ {
		if *budget > 0 && time.Since(start).Seconds() > *budget {
			break
		}
		w := genWorld(impl, *seed, i, *tier)
		if *begin {
			fmt.Fprintf(os.Stderr, "BEGIN %d\n", i)
		}
		v, info := impl.Exec(w, st)
		st.Worlds++
		st.Events += info.Events
		if info.Nontrivial {
			st.Nontrivial++
			if len(st.Distinct) < 2000000 {
				st.Distinct[info.Shape] = true
			}
		}
		if info.Interleave != 0 && len(st.Interleave) < 2000000 {
			st.Interleave[info.Interleave] = true
		}
		if *selftest != "" {
			hashes = append(hashes, fmt.Sprintf("%d %016x %016x", i, info.Hash, info.Interleave))
		}
		// in-run determinism re-check on 2% of the worlds
		if i%50 == 7 && !impl.NoRecheck && !*norecheck {
			w2 := genWorld(impl, *seed, i, *tier)
			v2, info2 := impl.Exec(w2, NewStats())
			st.Rechecks++
			if info2.Hash != info.Hash || (v == nil) != (v2 == nil) {
				// Either the harness is nondeterministic, or the module under test keeps process-wide
				// state that the first execution changed (a free list, a cache).  Tell them apart:
				// two fresh processes that run this batch up to world i must agree with each other.
				if !prefixDeterministic(*prop, *seed, *from, i, *tier) {
					fatal(2, "harness nondeterminism: world %d of %s seed %d re-executed with a different event hash (%x vs %x), and two fresh processes running worlds %d..%d disagree too", i, *prop, *seed, info.Hash, info2.Hash, *from, i)
				}
				st.C("recheck_needed_fresh_processes")
			}
		}
		if len(st.Samples) < 3 && info.Nontrivial && (i-*from)%3 == 0 {
			b, _ := json.Marshal(w)
			st.Samples = append(st.Samples, b)
		}
		if v != nil && len(res.Found) < *maxF {
			if len(info.Sched) > 0 && len(w.Sched) == 0 {
				w.Sched = info.Sched
			}
			res.Found = append(res.Found, Found{World: w, Violation: v})
		}
		res.Done++
	}
	for k := range st.Distinct {
		st.DistinctList = append(st.DistinctList, k)
	}
	sort.Slice(st.DistinctList, func(i, j int) bool { return st.DistinctList[i] < st.DistinctList[j] })
	for k := range st.Interleave {
		st.InterleaveList = append(st.InterleaveList, k)
	}
	sort.Slice(st.InterleaveList, func(i, j int) bool { return st.InterleaveList[i] < st.InterleaveList[j] })
	cs := simrt.ReadCounters()
	res.SimCount = map[string]int64{}
	for i, v := range cs {
		if v != 0 {
			res.SimCount[simCounterNames[i]] = v
		}
	}
	res.SitesHit, res.Sites = simrt.ReadSiteHits()
	res.HitSites = simrt.HitSites()
	res.WallS = time.Since(start).Seconds()
	if *selftest != "" {
		f, _ := os.Create(*selftest)
		for _, h := range hashes {
			fmt.Fprintln(f, h)
		}
		f.Close()
	}
	b, _ := json.Marshal(res)
	if *out == "" {
		fmt.Println(string(b))
	} else if err := os.WriteFile(*out, b, 0o644); err != nil {
		fatal(2, "%v", err)
	}
}

// prefixDeterministic runs worlds from..upto in two fresh child processes and
// reports whether their per-world event hashes agree.
func prefixDeterministic(prop string, seed uint64, from, upto int, tier string) bool {
	self, err := os.Executable()
	if err != nil {
		return false
	}
	var outs [2]string
	for k := range outs {
		f, err := os.CreateTemp("", "verif-recheck-*")
		if err != nil {
			return false
		}
		f.Close()
		defer os.Remove(f.Name())
		cmd := exec.Command(self, "-prop", prop, "-seed", fmt.Sprint(seed), "-from", fmt.Sprint(from), "-n", fmt.Sprint(upto-from+1), "-tier", tier, "-selftest", f.Name(), "-out", os.DevNull, "-norecheck")
		if err := cmd.Run(); err != nil {
			return false
		}
		b, _ := os.ReadFile(f.Name())
		outs[k] = string(b)
	}
	return outs[0] != "" && outs[0] == outs[1]
}

// forkBatch runs worlds from..from+n-1 each in a fresh child process (the worker
// binary itself) and merges the children's results.  A child that dies with a
// race report (exit 66) ends the batch: its stderr is passed on after a BEGIN
// line and the parent exits 66 too.
func forkBatch(prop string, seed uint64, from, n int, tier, out string, budget float64) int {
	self, err := os.Executable()
	if err != nil {
		fatal(2, "%v", err)
	}
	start := time.Now()
	total := &BatchResult{Prop: prop, Seed: seed, From: from, N: n, Stats: NewStats(), Race: simrt.RaceEnabled, SimCount: map[string]int64{}}
	hit := map[string]bool{}
	for i := from; i < from+n; i++ {
		if budget > 0 && time.Since(start).Seconds() > budget {
			break
		}
		cmd := exec.Command(self, "-prop", prop, "-seed", fmt.Sprint(seed), "-from", fmt.Sprint(i), "-n", "1", "-tier", tier)
		var ob, eb bytes.Buffer
		cmd.Stdout, cmd.Stderr = &ob, &eb
		if err := cmd.Run(); err != nil {
			if ee, ok := err.(*exec.ExitError); ok && ee.ExitCode() == 66 {
				fmt.Fprintf(os.Stderr, "BEGIN %d\n", i)
				os.Stderr.Write(eb.Bytes())
				return 66
			}
			fmt.Fprintf(os.Stderr, "child for world %d: %v\n%s", i, err, eb.String())
			return 2
		}
		var r BatchResult
		if err := json.Unmarshal(ob.Bytes(), &r); err != nil {
			fmt.Fprintf(os.Stderr, "child for world %d: unreadable result: %v\n", i, err)
			return 2
		}
		t, c := total.Stats, r.Stats
		t.Worlds += c.Worlds
		t.Nontrivial += c.Nontrivial
		t.Events += c.Events
		t.Rechecks += c.Rechecks
		for k, v := range c.Counters {
			t.Counters[k] += v
		}
		for k, v := range c.Inconclusive {
			t.Inconclusive[k] += v
		}
		t.DistinctList = append(t.DistinctList, c.DistinctList...)
		t.InterleaveList = append(t.InterleaveList, c.InterleaveList...)
		if len(t.Samples) < 3 {
			t.Samples = append(t.Samples, c.Samples...)
		}
		for k, v := range r.SimCount {
			total.SimCount[k] += v
		}
		for _, s := range r.HitSites {
			hit[s] = true
		}
		total.Sites = r.Sites
		total.Found = append(total.Found, r.Found...)
		total.Done += r.Done
	}
	for s := range hit {
		total.HitSites = append(total.HitSites, s)
	}
	sort.Strings(total.HitSites)
	total.SitesHit = len(total.HitSites)
	total.WallS = time.Since(start).Seconds()
	b, _ := json.Marshal(total)
	if out == "" {
		fmt.Println(string(b))
	} else if err := os.WriteFile(out, b, 0o644); err != nil {
		fatal(2, "%v", err)
	}
	return 0
}

// ---- replay ---------------------------------------------------------------------------

// Prefix names worlds to be executed first, in the same process, because the
// finding depends on process-wide state that earlier worlds left behind.
type Prefix struct {
	Seed uint64 `json:"seed"`
	From int    `json:"from"`
	N    int    `json:"n"`
	Tier string `json:"tier"`
}

type ReplayFile struct {
	Property  string     `json:"property"`
	World     *World     `json:"world"`
	Expect    *Violation `json:"expect"`
	Minimised bool       `json:"minimised"`
	Note      string     `json:"note,omitempty"`
	Prefix    *Prefix    `json:"prefix,omitempty"`
}

func loadReplay(path string) *ReplayFile {
	b, err := os.ReadFile(path)
	if err != nil {
		fatal(2, "%v", err)
	}
	var rf ReplayFile
	if err := json.Unmarshal(b, &rf); err != nil {
		fatal(2, "%s: %v", path, err)
	}
	if rf.World == nil {
		fatal(2, "%s: no world", path)
	}
	return &rf
}

func sameClass(a, b *Violation) bool {
	return a != nil && b != nil && a.Prop == b.Prop && a.Oracle == b.Oracle && a.Sig == b.Sig
}

func doReplay(path string) int {
	rf := loadReplay(path)
	impl := props[rf.World.Prop]
	if impl == nil {
		fatal(2, "unknown property %q", rf.World.Prop)
	}
	if p := rf.Prefix; p != nil {
		for i := p.From; i < p.From+p.N; i++ {
			fmt.Fprintf(os.Stderr, "BEGIN %d\n", i)
			impl.Exec(genWorld(impl, p.Seed, i, p.Tier), NewStats())
		}
	}
	fmt.Fprintf(os.Stderr, "BEGIN %d\n", rf.World.Idx)
	v, _ := impl.Exec(rf.World, NewStats())
	if v == nil {
		fmt.Println("replay: no violation")
		return 0
	}
	fmt.Printf("replay: %s\n", v)
	if rf.Expect != nil && !sameClass(v, rf.Expect) {
		fmt.Printf("replay: differs from the recorded violation: %s\n", rf.Expect)
	}
	fmt.Printf("VIOLATION property=%s replay=%s\n", v.Prop, path)
	return 1
}

// ---- minimisation (delta debugging over op lists, tasks and schedule) -------------------

func cloneWorld(w *World) *World {
	b, _ := json.Marshal(w)
	var c World
	json.Unmarshal(b, &c)
	return &c
}

func doMinimise(path, out string) int {
	rf := loadReplay(path)
	impl := props[rf.World.Prop]
	if impl == nil {
		fatal(2, "unknown property %q", rf.World.Prop)
	}
	w := rf.World
	v0, _ := impl.Exec(cloneWorld(w), NewStats())
	if v0 == nil {
		fmt.Println("minimise: the world does not fail")
		return 2
	}
	want := v0
	tries := 0
	deadline := time.Now().Add(60 * time.Second)
	test := func(c *World) bool {
		tries++
		if tries > 3000 || time.Now().After(deadline) {
			return false
		}
		v, _ := impl.Exec(cloneWorld(c), NewStats())
		return sameClass(v, want)
	}
	shrinkList := func(get func(*World) []Op, set func(*World, []Op)) {
		// remove chunks, halving
		for chunk := (len(get(w)) + 1) / 2; chunk >= 1; chunk /= 2 {
			for i := 0; i+chunk <= len(get(w)); {
				c := cloneWorld(w)
				l := get(c)
				nl := append(append([]Op{}, l[:i]...), l[i+chunk:]...)
				set(c, nl)
				if test(c) {
					w = c
				} else {
					i += chunk
				}
			}
		}
	}
	for round := 0; round < 4; round++ {
		before := worldSize(w)
		shrinkList(func(x *World) []Op { return x.Ops }, func(x *World, l []Op) { x.Ops = l })
		shrinkList(func(x *World) []Op { return x.Setup }, func(x *World, l []Op) { x.Setup = l })
		for ti := range w.Tasks {
			ti := ti
			shrinkList(func(x *World) []Op { return x.Tasks[ti] }, func(x *World, l []Op) { x.Tasks[ti] = l })
		}
		// schedule entries
		for i := 0; i < len(w.Sched); {
			c := cloneWorld(w)
			c.Sched = append(append([]simrt.Switch{}, c.Sched[:i]...), c.Sched[i+1:]...)
			if test(c) {
				w = c
			} else {
				i++
			}
		}
		// simplify ops: fewer methods, no middlewares
		simplify := func(l []Op, set func(c *World, i int, o Op)) {
			for i := range l {
				o := l[i]
				if len(o.Methods) > 1 {
					for k := range o.Methods {
						o2 := o
						o2.Methods = append(append([]string{}, o.Methods[:k]...), o.Methods[k+1:]...)
						c := cloneWorld(w)
						set(c, i, o2)
						if test(c) {
							w = c
							break
						}
					}
				}
				if len(o.MW) > 0 {
					o2 := l[i]
					o2.MW = nil
					c := cloneWorld(w)
					set(c, i, o2)
					if test(c) {
						w = c
					}
				}
			}
		}
		simplify(w.Ops, func(c *World, i int, o Op) { c.Ops[i] = o })
		if worldSize(w) == before {
			break
		}
	}
	v, _ := impl.Exec(cloneWorld(w), NewStats())
	res := ReplayFile{Property: w.Prop, World: w, Expect: v, Minimised: true, Note: fmt.Sprintf("minimised with %d candidate executions", tries)}
	b, _ := json.MarshalIndent(res, "", " ")
	if out == "" {
		out = path
	}
	if err := os.WriteFile(out, b, 0o644); err != nil {
		fatal(2, "%v", err)
	}
	fmt.Printf("minimise: %d candidates, %d ops left\n", tries, worldSize(w))
	return 0
}

func worldSize(w *World) int {
	n := len(w.Ops) + len(w.Setup) + len(w.Sched)
	for _, t := range w.Tasks {
		n += len(t)
	}
	return n
}
