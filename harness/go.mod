module verifharness

go 1.23.0

require (
	github.com/anishathalye/porcupine v1.3.0
	github.com/issue9/mux/v9 v9.0.0
)

replace github.com/issue9/mux/v9 => ../mux
