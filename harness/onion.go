package main

import (
	"fmt"
	"sort"
	"strings"

	mux "github.com/issue9/mux/v9"
	"github.com/issue9/mux/v9/simrt"
	"github.com/issue9/mux/v9/types"
)

// Facade programs (C09, C19): named Prefix / Resource objects, registrations
// through them, Use, Remove, Clean, URL - issued by several admin tasks whose
// op-level interleaving is part of the generated program.

type facade struct {
	full   string   // concatenated prefix / resource pattern
	ms     []string // flattened middleware tags, inner → outer
	isRes  bool
	prefix *mux.Prefix[*Comp]
	res    *mux.Resource[*Comp]
}

type progState struct {
	fac map[string]*facade
}

func fullPattern(ps *progState, op *Op) (string, []string) {
	if op.Via == "" {
		return op.Pattern, op.MW
	}
	f := ps.fac[op.Via]
	if f == nil {
		return op.Pattern, op.MW
	}
	if f.isRes {
		return f.full, append(append([]string{}, op.MW...), f.ms...)
	}
	return f.full + op.Pattern, append(append([]string{}, op.MW...), f.ms...)
}

var facPrefixes = []string{"/", "/api", "/api/", "", "/v{ver:\\d+}", "/u/{uid", "/admin", "/s/", "/a/b"}
var facRest = []string{"", "/users", "/users/{id}", "}/posts", "/{id}", "/{name}/log", "/x", "x", "/p/{page:\\d+}", "/a", "/b", "/c", "/d", "/e", "/f"}

func genProgram(r *Rng, group bool) *World {
	w := &World{}
	w.Opts = RouterOpts{Name: "r", Trace: r.Pct(40), Interceptors: GenICs(r)}
	if r.Pct(30) {
		w.Opts.URLDomain = "https://example.com/"
	}
	w.Pool = genPoolCfg(r)
	m := NewModel(w.Opts)
	type fdesc struct {
		full  string
		isRes bool
	}
	facs := map[string]fdesc{}
	var names []string
	nTasks := r.Range(1, 3)
	hid, mwN, fN := 100, 0, 0
	tag := func(kind string) string { mwN++; return fmt.Sprintf("%s%d", kind, mwN) }
	tags := func(kind string) []string {
		var t []string
		for i := r.Intn(3); i > 0; i-- {
			t = append(t, tag(kind))
		}
		return t
	}
	var pairBase []string
	var pairVia, pairExtra string
	n := r.Range(5, 18)
	for i := 0; i < n; i++ {
		op := Op{T: r.Intn(nTasks)}
		k := r.Intn(100)
		if pairBase != nil {
			k = 99 // the second half of a pair follows its first half immediately
		}
		switch {
		case k < 14: // new prefix (possibly nested)
			fN++
			op.K, op.Name = "prefix", fmt.Sprintf("p%d", fN)
			op.Pattern = pick(r, facPrefixes)
			op.MW = tags("P")
			parent := ""
			if len(names) > 0 && r.Pct(50) {
				parent = pick(r, names)
				if facs[parent].isRes {
					parent = ""
				}
			}
			if parent != "" {
				op.Args = []string{parent}
			}
			facs[op.Name] = fdesc{full: facs[parent].full + op.Pattern}
			names = append(names, op.Name)
		case k < 22: // new resource
			fN++
			op.K, op.Name = "resource", fmt.Sprintf("r%d", fN)
			op.Pattern = pick(r, facRest)
			op.MW = tags("S")
			parent := ""
			if len(names) > 0 && r.Pct(60) {
				parent = pick(r, names)
				if facs[parent].isRes {
					parent = ""
				}
			}
			if parent != "" {
				op.Args = []string{parent}
			}
			facs[op.Name] = fdesc{full: facs[parent].full + op.Pattern, isRes: true}
			names = append(names, op.Name)
		case k < 34:
			op.K = "use"
			op.MW = []string{tag("U")}
			if r.Pct(30) {
				op.MW = append(op.MW, tag("U"))
			}
			if r.Pct(4) { // a long chain: more middlewares than any fixed-size buffer a router might keep
				for j := r.Range(18, 36); j > 0; j-- {
					op.MW = append(op.MW, tag("U"))
				}
			}
		case k < 42 && len(m.Order) > 0: // remove through a facade or directly
			op.K = "remove"
			target := pick(r, m.Order)
			op.Pattern = target
			for _, nm := range names {
				f := facs[nm]
				if f.isRes && f.full == target && r.Pct(70) {
					op.Via, op.Pattern = nm, ""
					break
				}
				if !f.isRes && strings.HasPrefix(target, f.full) && len(target) > len(f.full) && r.Pct(50) {
					op.Via, op.Pattern = nm, target[len(f.full):]
					break
				}
			}
			if r.Pct(40) {
				op.Methods = []string{pick(r, sortedKeys(strSetOfHandlers(m.Routes[target])))}
			}
		case k < 47 && len(names) > 0:
			op.K, op.Via = "fclean", pick(r, names)
		case k < 49:
			op.K = "clean"
		case k < 57:
			op.K = "url"
			op.B = r.Pct(50)
			op.Params = map[string]string{"id": "5", "ver": "2", "uid": "7", "name": "zk", "page": "3"}
			if r.Pct(20) {
				delete(op.Params, "id")
			}
			if len(names) > 0 && r.Pct(60) {
				op.Via = pick(r, names)
				if !facs[op.Via].isRes {
					op.Pattern = pick(r, facRest)
				}
			} else {
				op.Pattern = pick(r, facPrefixes) + pick(r, facRest)
			}
		default:
			op.K = "handle"
			if len(names) > 0 && r.Pct(75) {
				op.Via = pick(r, names)
			}
			if pairBase != nil {
				op.Via = pairVia
			}
			ok := false
			for try := 0; try < 6 && !ok; try++ {
				full := ""
				if op.Via != "" && facs[op.Via].isRes {
					op.Pattern = ""
					full = facs[op.Via].full
				} else {
					op.Pattern = pick(r, facRest)
					full = facs[op.Via].full + op.Pattern
				}
				op.Methods = genMethods(r, w.Opts.Trace)
				v, _ := m.HandleVerdict(full, op.Methods)
				ok = v == 1
			}
			if !ok {
				pairBase = nil
				continue
			}
			hid++
			op.HID = hid
			op.MW = tags("R")
			op.B = r.Pct(60) // use Get/Post/.../Any instead of Handle where one exists for the method list
			if pairBase != nil && op.Via == pairVia {
				// second half of a "base, base+extra" pair: same list plus one more middleware
				op.MW = append(append([]string{}, pairBase...), pairExtra)
				op.N = 2
				pairBase = nil
			} else if len(op.MW) > 0 && r.Pct(35) { // through a facade or directly on the Router
				pairBase, pairVia, pairExtra = op.MW, op.Via, tag("X")
				op.N = 1
				op.Args = []string{pairExtra}
			}
		}
		// model bookkeeping at generation time (only to keep registrations valid)
		switch op.K {
		case "handle":
			full := op.Pattern
			if op.Via != "" {
				if facs[op.Via].isRes {
					full = facs[op.Via].full
				} else {
					full = facs[op.Via].full + op.Pattern
				}
			}
			m.Handle(full, op.HID, nil, op.Methods)
		case "remove":
			full := op.Pattern
			if op.Via != "" {
				if facs[op.Via].isRes {
					full = facs[op.Via].full
				} else {
					full = facs[op.Via].full + op.Pattern
				}
			}
			m.Remove(full, op.Methods)
		case "clean":
			m.Clean()
		case "fclean":
			if facs[op.Via].isRes {
				m.Remove(facs[op.Via].full, nil)
			} else {
				m.CleanPrefix(facs[op.Via].full)
			}
		}
		w.Ops = append(w.Ops, op)
	}
	return w
}

// progRun executes a facade program, either through the facades (desugar =
// false) or translated into plain Router calls (desugar = true).
// mwFor builds the route-level middleware list of a registration.  Two consecutive registrations
// marked N=1 / N=2 by the generator use the "base, then base+extra" idiom on ONE backing array:
// both slices exist before the first call, so a callee that appends to the caller's slice in place
// of copying it overwrites the extra element of the second list.
func (p *progRun) mwFor(op *Op) []types.Middleware[*Comp] {
	switch op.N {
	case 1:
		both := p.env.MWs(append(append([]string{}, op.MW...), op.Args...)...)
		p.pending = both
		return both[:len(op.MW):len(both)]
	case 2:
		if p.pending != nil && len(p.pending) == len(op.MW) {
			ms := p.pending
			p.pending = nil
			return ms
		}
	}
	return p.env.MWs(op.MW...)
}

type progRun struct {
	pending []types.Middleware[*Comp]
	w       *World
	env     *Env
	r       *mux.Router[*Comp]
	m       *Model
	ps      *progState
	desugar bool
	st      *Stats
	urlOut  string
}

func newProgRun(w *World, desugar bool, st *Stats) *progRun {
	env := NewEnv()
	env.UniqueIDs = true
	env.Arena = true
	return &progRun{w: w, env: env, r: NewSimRouter(env, w.Opts), m: NewModel(w.Opts), ps: &progState{fac: map[string]*facade{}}, desugar: desugar, st: st}
}

// step executes one op; returns the recovered panic class ("" if none).
func (p *progRun) step(op *Op) (pan string) {
	defer func() {
		if r := recover(); r != nil {
			pan = classifyPanic(r)
			if strings.HasPrefix(pan, "other:") {
				pan = "rejected" // error text is not part of the comparison
			}
		}
	}()
	e, r := p.env, p.r
	p.urlOut = ""
	switch op.K {
	case "prefix":
		f := &facade{full: op.Pattern, ms: append([]string{}, op.MW...)}
		var parent *facade
		if len(op.Args) > 0 {
			parent = p.ps.fac[op.Args[0]]
		}
		if parent != nil {
			f.full = parent.full + op.Pattern
			f.ms = append(f.ms, parent.ms...)
		}
		if !p.desugar {
			if parent != nil {
				f.prefix = parent.prefix.Prefix(op.Pattern, p.mwFor(op)...)
			} else {
				f.prefix = r.Prefix(op.Pattern, p.mwFor(op)...)
			}
		}
		p.ps.fac[op.Name] = f
	case "resource":
		f := &facade{full: op.Pattern, ms: append([]string{}, op.MW...), isRes: true}
		var parent *facade
		if len(op.Args) > 0 {
			parent = p.ps.fac[op.Args[0]]
		}
		if parent != nil {
			f.full = parent.full + op.Pattern
			f.ms = append(f.ms, parent.ms...)
		}
		if !p.desugar {
			if parent != nil {
				f.res = parent.prefix.Resource(op.Pattern, p.mwFor(op)...)
			} else {
				f.res = r.Resource(op.Pattern, p.mwFor(op)...)
			}
		}
		p.ps.fac[op.Name] = f
	case "use":
		r.Use(p.mwFor(op)...)
		p.m.Use = append(p.m.Use, op.MW...)
	case "handle":
		full, flat := fullPattern(p.ps, op)
		verdict, _ := p.m.HandleVerdict(full, op.Methods)
		h := e.Handler(op.HID, nil)
		f := p.ps.fac[op.Via]
		short := ""
		if op.B && !p.desugar {
			switch {
			case len(op.Methods) == 0:
				short = "ANY"
			case len(op.Methods) == 1 && contains([]string{"GET", "POST", "DELETE", "PUT", "PATCH"}, op.Methods[0]):
				short = op.Methods[0]
			}
		}
		// the list for a call on the Router itself; such calls, too, can be one half of a
		// "base, base+extra" pair on one backing array
		plain := e.MWs(flat...)
		if f == nil && op.N != 0 {
			plain = p.mwFor(op)
		}
		switch {
		case p.desugar:
			r.Handle(full, h, plain, op.Methods...)
		case f == nil:
			switch short {
			case "GET":
				r.Get(full, h, plain...)
			case "POST":
				r.Post(full, h, plain...)
			case "DELETE":
				r.Delete(full, h, plain...)
			case "PUT":
				r.Put(full, h, plain...)
			case "PATCH":
				r.Patch(full, h, plain...)
			case "ANY":
				r.Any(full, h, plain...)
			default:
				r.Handle(full, h, plain, op.Methods...)
			}
		case f.isRes:
			switch short {
			case "GET":
				f.res.Get(h, p.mwFor(op)...)
			case "POST":
				f.res.Post(h, p.mwFor(op)...)
			case "DELETE":
				f.res.Delete(h, p.mwFor(op)...)
			case "PUT":
				f.res.Put(h, p.mwFor(op)...)
			case "PATCH":
				f.res.Patch(h, p.mwFor(op)...)
			case "ANY":
				f.res.Any(h, p.mwFor(op)...)
			default:
				f.res.Handle(h, p.mwFor(op), op.Methods...)
			}
		default:
			switch short {
			case "GET":
				f.prefix.Get(op.Pattern, h, p.mwFor(op)...)
			case "POST":
				f.prefix.Post(op.Pattern, h, p.mwFor(op)...)
			case "DELETE":
				f.prefix.Delete(op.Pattern, h, p.mwFor(op)...)
			case "PUT":
				f.prefix.Put(op.Pattern, h, p.mwFor(op)...)
			case "PATCH":
				f.prefix.Patch(op.Pattern, h, p.mwFor(op)...)
			case "ANY":
				f.prefix.Any(op.Pattern, h, p.mwFor(op)...)
			default:
				f.prefix.Handle(op.Pattern, h, p.mwFor(op), op.Methods...)
			}
		}
		if verdict >= 0 {
			p.m.Handle(full, op.HID, flat, op.Methods)
		}
	case "remove":
		full, _ := fullPattern(p.ps, op)
		f := p.ps.fac[op.Via]
		switch {
		case p.desugar || f == nil:
			r.Remove(full, op.Methods...)
		case f.isRes:
			f.res.Remove(op.Methods...)
		default:
			f.prefix.Remove(op.Pattern, op.Methods...)
		}
		p.m.Remove(full, op.Methods)
	case "clean":
		r.Clean()
		p.m.Clean()
	case "fclean":
		f := p.ps.fac[op.Via]
		if f == nil {
			return ""
		}
		switch {
		case f.isRes:
			if p.desugar {
				r.Remove(f.full)
			} else {
				f.res.Clean()
			}
			p.m.Remove(f.full, nil)
		default:
			if p.desugar {
				// Prefix.Clean has no Router counterpart: remove exactly the live patterns that start with the prefix
				for _, pat := range append([]string{}, p.m.Order...) {
					if strings.HasPrefix(pat, f.full) {
						r.Remove(pat)
					}
				}
			} else {
				f.prefix.Clean()
			}
			p.m.CleanPrefix(f.full)
		}
	case "url":
		full, _ := fullPattern(p.ps, op)
		f := p.ps.fac[op.Via]
		var u string
		var err error
		switch {
		case p.desugar || f == nil:
			u, err = r.URL(op.B, full, op.Params)
		case f.isRes:
			u, err = f.res.URL(op.B, op.Params)
		default:
			u, err = f.prefix.URL(op.B, op.Pattern, op.Params)
		}
		if err != nil {
			p.urlOut = "url-error"
		} else {
			p.urlOut = "url:" + u
		}
	}
	return ""
}

var onionMethods = []string{"GET", "HEAD", "POST", "PUT", "DELETE", "OPTIONS", "BOGUS", "TRACE"}

// observe renders everything observable after a step.
func (p *progRun) observe() []string {
	var lines []string
	func() {
		defer func() {
			if r := recover(); r != nil {
				lines = append(lines, "Routes() panicked")
			}
		}()
		lines = append(lines, "routes: "+routesKey(p.r.Routes()))
	}()
	for _, pat := range p.m.SortedPatterns() {
		path, _ := FixedWitness(p.m.Routes[pat].P)
		for _, meth := range onionMethods {
			o := Serve(p.r, Req{Method: meth, Path: path}, nil, nil)
			p.st.C("probe")
			lines = append(lines, fmt.Sprintf("%s %s -> %s trace=%v", meth, path, o.Key(), o.Trace))
		}
	}
	for _, q := range []Req{{Method: "GET", Path: "/definitely/not/there"}, {Method: "OPTIONS", Path: "*"}, {Method: "TRACE", Path: "/zz"}} {
		o := Serve(p.r, q, nil, nil)
		lines = append(lines, fmt.Sprintf("%s -> %s trace=%v", q, o.Key(), o.Trace))
	}
	// factory calls as a multiset
	var fc []string
	for _, c := range p.env.Factory {
		fc = append(fc, fmt.Sprintf("%s(%s,%q,%s)->%s", c.Tag, c.Method, c.Pattern, c.Router, c.BaseKind))
	}
	sort.Strings(fc)
	lines = append(lines, "factory: "+strings.Join(fc, " "))
	return lines
}

// ---- C19: twin worlds --------------------------------------------------------------------------

func execC19(w *World, st *Stats) (*Violation, RunInfo) {
	simrt.SetPoolCfg(w.Pool)
	f := newProgRun(w, false, st)
	d := newProgRun(w, true, st)
	info := RunInfo{Shape: worldShape(w), Events: int64(len(w.Ops))}
	h := uint64(14695981039346656037)
	mutated := false
	for i := range w.Ops {
		op := &w.Ops[i]
		st.C("op_" + op.K)
		pf := f.step(op)
		pd := d.step(op)
		mk := func(sig, detail string) *Violation {
			return &Violation{Prop: "C19", Oracle: "twin-equality", Sig: sig, Detail: fmt.Sprintf("step %d %s: %s", i, op, detail), Step: i}
		}
		h = hashStr(h, pf)
		if strings.HasPrefix(pf, "runtime") || strings.HasPrefix(pd, "runtime") {
			if pf != pd {
				info.Hash = h
				return mk("panic-differs", fmt.Sprintf("facade program: %q, desugared program: %q", pf, pd)), info
			}
			continue
		}
		if pf != pd {
			info.Hash = h
			return mk("panic-differs", fmt.Sprintf("facade program: %q, desugared program: %q", pf, pd)), info
		}
		if f.urlOut != d.urlOut {
			info.Hash = h
			return mk("url-differs", fmt.Sprintf("facade URL %q, Router.URL on the concatenated pattern %q", f.urlOut, d.urlOut)), info
		}
		h = hashStr(h, f.urlOut)
		if op.K == "prefix" || op.K == "resource" || op.K == "url" {
			continue
		}
		mutated = true
		of, od := f.observe(), d.observe()
		for _, l := range of {
			h = hashStr(h, l)
		}
		if diff := diffLines(of, od); diff != "" {
			info.Hash = h
			return mk("observation-differs", strings.Replace(strings.Replace(diff, "before:", "facade:", 1), "after:", "desugared:", 1)), info
		}
		st.C("c19_steps_compared")
	}
	info.Hash = h
	info.Nontrivial = mutated
	return nil, info
}

func init() {
	register(&PropImpl{ID: "C19",
		Gen:  func(r *Rng, idx int, tier string) *World { return genProgram(r, false) },
		Exec: execC19})
}

// ---- C09: onion order ---------------------------------------------------------------------------

func expectTrace(use []string, reg []string) []string {
	return append(reverseStr(use), reverseStr(reg)...)
}

// checkFactory: every tag of want was applied exactly once to the handler
// instance (base id, factory method) with the right pattern and router.
func checkFactory(env *Env, base int, method, pattern, router string, want []string, shared bool) string {
	got := map[string]int{}
	for _, c := range env.Factory {
		if c.Base != base || c.Method != method {
			continue
		}
		if shared && c.Router != router {
			continue // a component shared by several routers (the group's not-found handler): look at this router's wraps only
		}
		if c.Pattern != pattern || c.Router != router {
			return fmt.Sprintf("factory %s called with (method=%q, pattern=%q, router=%q), want (%q, %q, %q)", c.Tag, c.Method, c.Pattern, c.Router, method, pattern, router)
		}
		got[c.Tag]++
	}
	for _, t := range want {
		if got[t] != 1 {
			return fmt.Sprintf("factory %s invoked %d times for handler h%d method %q (want exactly once)", t, got[t], base, method)
		}
		delete(got, t)
	}
	for t, n := range got {
		return fmt.Sprintf("factory %s invoked %d times for handler h%d method %q which it does not wrap", t, n, base, method)
	}
	return ""
}

func execC09(w *World, st *Stats) (*Violation, RunInfo) {
	if w.Variant == "group" {
		return execC09Group(w, st)
	}
	simrt.SetPoolCfg(w.Pool)
	p := newProgRun(w, false, st)
	info := RunInfo{Shape: worldShape(w), Events: int64(len(w.Ops))}
	h := uint64(14695981039346656037)
	mutated := false
	for i := range w.Ops {
		op := &w.Ops[i]
		st.C("op_" + op.K)
		pan := p.step(op)
		h = hashStr(h, pan)
		if op.K == "prefix" || op.K == "resource" || op.K == "url" || pan != "" {
			continue
		}
		mutated = true
		mk := func(oracle, sig, detail string) *Violation {
			return &Violation{Prop: "C09", Oracle: oracle, Sig: sig, Detail: fmt.Sprintf("after step %d %s: %s", i, op, detail), Step: i}
		}
		check := func(q Req, wantKind CKind, pattern, facMethod string, reg []string) *Violation {
			o := Serve(p.r, q, nil, nil)
			st.C("probe")
			h = hashStr(h, strings.Join(o.Trace, ","))
			if o.Panic != "" || o.Zero || o.Kind != wantKind || (pattern != "" && o.Pattern != pattern) {
				return nil // dispatch is other properties' subject
			}
			want := expectTrace(p.m.Use, reg)
			st.C("c09_traces_checked")
			if strings.Join(o.Trace, ",") != strings.Join(want, ",") {
				return mk("request-trace", "order:"+wantKind.String(), fmt.Sprintf("%s ran middlewares %v, documented order %v (Use %v, registration %v)", q, o.Trace, want, p.m.Use, reg))
			}
			if d := checkFactory(p.env, o.HID, facMethod, pattern, w.Opts.Name, want, false); d != "" {
				return mk("factory-calls", "factory:"+wantKind.String(), fmt.Sprintf("%s: %s", q, d))
			}
			return nil
		}
		for _, pat := range p.m.SortedPatterns() {
			mr := p.m.Routes[pat]
			path, _ := FixedWitness(mr.P)
			for _, meth := range sortedKeys(strSetOfHandlers(mr)) {
				if v := check(Req{Method: meth, Path: path}, KRoute, pat, meth, mr.Methods[meth].MS); v != nil {
					info.Hash = h
					return v, info
				}
			}
			if g := mr.Methods["GET"]; g != nil {
				if v := check(Req{Method: "HEAD", Path: path}, KRoute, pat, "HEAD", g.MS); v != nil {
					info.Hash = h
					return v, info
				}
			}
			if v := check(Req{Method: "OPTIONS", Path: path}, KOptions, pat, "OPTIONS", mr.FirstMS); v != nil {
				info.Hash = h
				return v, info
			}
			if v := check(Req{Method: "BOGUS", Path: path}, K405, pat, "", mr.FirstMS); v != nil {
				info.Hash = h
				return v, info
			}
		}
		if v := check(Req{Method: "GET", Path: "/definitely/not/there"}, K404, "", "", nil); v != nil {
			info.Hash = h
			return v, info
		}
		if v := check(Req{Method: "OPTIONS", Path: "*"}, KOptions, "", "OPTIONS", nil); v != nil {
			info.Hash = h
			return v, info
		}
		if w.Opts.Trace {
			if v := check(Req{Method: "TRACE", Path: "/zz"}, KTrace, "", "TRACE", nil); v != nil {
				info.Hash = h
				return v, info
			}
		}
	}
	info.Hash = h
	info.Nontrivial = mutated
	return nil, info
}

// Group variant: Group.Use / Group.New / Group.Add interleaved with Router.Use
// and registrations.  Routers are selected by Host.
func genC09Group(r *Rng) *World {
	w := &World{Variant: "group"}
	w.Pool = genPoolCfg(r)
	mwN, hid := 0, 100
	tag := func(kind string) string { mwN++; return fmt.Sprintf("%s%d", kind, mwN) }
	var routers []string
	n := r.Range(4, 14)
	for i := 0; i < n; i++ {
		op := Op{T: r.Intn(3)}
		switch k := r.Intn(100); {
		case k < 8 && len(routers) > 0:
			// a second router object with a taken name: refused now, added for real after the first one is removed
			name := pick(r, routers)
			hid++
			w.Ops = append(w.Ops, Op{T: r.Intn(3), K: "gadd-dup", Name: name, HID: hid})
			if r.Pct(70) {
				if r.Pct(50) {
					mwN++
					w.Ops = append(w.Ops, Op{T: r.Intn(3), K: "guse", MW: []string{fmt.Sprintf("G%d", mwN)}})
				}
				w.Ops = append(w.Ops, Op{T: r.Intn(3), K: "gremove", Name: name})
				w.Ops = append(w.Ops, Op{T: r.Intn(3), K: "greadd", Name: name})
			}
			continue
		case k < 20 && len(routers) < 4:
			op.K = pick(r, []string{"gnew", "gadd"})
			op.Name = fmt.Sprintf("rt%d", len(routers)+1)
			routers = append(routers, op.Name)
		case k < 40:
			op.K = "guse"
			op.MW = []string{tag("G")}
			if r.Pct(30) {
				op.MW = append(op.MW, tag("G"))
			}
		case k < 55 && len(routers) > 0:
			op.K, op.Name = "use", pick(r, routers)
			op.MW = []string{tag("U")}
		case len(routers) > 0:
			op.K, op.Name = "handle", pick(r, routers)
			hid++
			op.HID = hid
			op.Pattern = pick(r, []string{"/a", "/b/{id}", "/c"})
			op.Methods = []string{pick(r, []string{"GET", "POST", "PUT", "DELETE"})}
			if r.Pct(50) {
				op.MW = []string{tag("R")}
			}
		default:
			continue
		}
		w.Ops = append(w.Ops, op)
	}
	return w
}

func execC09Group(w *World, st *Stats) (*Violation, RunInfo) {
	simrt.SetPoolCfg(w.Pool)
	env := NewEnv()
	env.UniqueIDs = true
	env.Arena = true
	info := RunInfo{Shape: worldShape(w), Events: int64(len(w.Ops))}
	h := uint64(14695981039346656037)
	g := mux.NewGroup[*Comp](env.Call, env.Group404(idG404), env.NotAllowedBuilder(id405), env.OptionsBuilder(idOptions))
	type rt struct {
		r   *mux.Router[*Comp]
		m   *Model
		use []string
	}
	rts := map[string]*rt{}
	pending := map[string]*rt{} // router objects whose Add was refused because the name was taken
	var order []string
	var guse []string
	mutated := false
	for i := range w.Ops {
		op := &w.Ops[i]
		st.C("op_" + op.K)
		pan := catch(func() {
			switch op.K {
			case "gnew":
				x := &rt{m: NewModel(RouterOpts{})}
				x.r = g.New(op.Name, mux.NewHosts(false, op.Name+".example.com"))
				x.use = append(x.use, guse...)
				rts[op.Name] = x
				order = append(order, op.Name)
			case "gadd":
				x := &rt{m: NewModel(RouterOpts{})}
				x.r = NewSimRouter(env, RouterOpts{Name: op.Name})
				g.Add(mux.NewHosts(false, op.Name+".example.com"), x.r)
				x.use = append(x.use, guse...)
				rts[op.Name] = x
				order = append(order, op.Name)
			case "gadd-dup":
				x := &rt{m: NewModel(RouterOpts{})}
				x.r = NewSimRouter(env, RouterOpts{Name: op.Name})
				x.r.Handle("/dup", env.Handler(op.HID, nil), nil, "GET")
				x.m.Handle("/dup", op.HID, nil, []string{"GET"})
				pending[op.Name] = x
				g.Add(mux.NewHosts(false, op.Name+".example.com"), x.r) // must panic: the name is taken
			case "gremove":
				g.Remove(op.Name)
				if rts[op.Name] != nil {
					delete(rts, op.Name)
					for k, n := range order {
						if n == op.Name {
							order = append(order[:k], order[k+1:]...)
							break
						}
					}
				}
			case "greadd":
				x := pending[op.Name]
				if x == nil || rts[op.Name] != nil {
					return
				}
				g.Add(mux.NewHosts(false, op.Name+".example.com"), x.r)
				x.use = append([]string{}, guse...) // the group's middlewares count from the Add that succeeded
				rts[op.Name] = x
				order = append(order, op.Name)
				delete(pending, op.Name)
			case "guse":
				g.Use(env.MWs(op.MW...)...)
				guse = append(guse, op.MW...)
				for _, x := range rts {
					x.use = append(x.use, op.MW...)
				}
			case "use":
				x := rts[op.Name]
				x.r.Use(env.MWs(op.MW...)...)
				x.use = append(x.use, op.MW...)
			case "handle":
				x := rts[op.Name]
				if v, _ := x.m.HandleVerdict(op.Pattern, op.Methods); v != 1 {
					return
				}
				x.r.Handle(op.Pattern, env.Handler(op.HID, nil), env.MWs(op.MW...), op.Methods...)
				x.m.Handle(op.Pattern, op.HID, op.MW, op.Methods)
			}
		})
		if pan != nil {
			continue
		}
		mutated = true
		mk := func(oracle, sig, detail string) *Violation {
			return &Violation{Prop: "C09", Oracle: oracle, Sig: sig, Detail: fmt.Sprintf("group, after step %d %s: %s", i, op, detail), Step: i}
		}
		check := func(q Req, wantKind CKind, pattern, facMethod, router string, use, reg []string) *Violation {
			o := Serve(g, q, nil, nil)
			st.C("probe")
			h = hashStr(h, strings.Join(o.Trace, ","))
			if wantKind == K404 && o.Kind == KGroup404 && o.Router == router {
				wantKind = KGroup404 // routers made by Group.New answer 404 with the group's not-found component
			}
			if o.Panic != "" || o.Zero || o.Kind != wantKind || (pattern != "" && o.Pattern != pattern) {
				return nil
			}
			want := expectTrace(use, reg)
			st.C("c09_traces_checked")
			if strings.Join(o.Trace, ",") != strings.Join(want, ",") {
				return mk("request-trace", "group-order:"+wantKind.String(), fmt.Sprintf("%s ran middlewares %v, documented order %v", q, o.Trace, want))
			}
			if d := checkFactory(env, o.HID, facMethod, pattern, router, want, o.Kind == KGroup404); d != "" {
				return mk("factory-calls", "group-factory:"+wantKind.String(), fmt.Sprintf("%s: %s", q, d))
			}
			return nil
		}
		for _, name := range order {
			x := rts[name]
			host := name + ".example.com"
			for _, pat := range x.m.SortedPatterns() {
				mr := x.m.Routes[pat]
				path, _ := FixedWitness(mr.P)
				for _, meth := range sortedKeys(strSetOfHandlers(mr)) {
					if v := check(Req{Method: meth, Path: path, Host: host}, KRoute, pat, meth, name, x.use, mr.Methods[meth].MS); v != nil {
						info.Hash = h
						return v, info
					}
				}
				if v := check(Req{Method: "OPTIONS", Path: path, Host: host}, KOptions, pat, "OPTIONS", name, x.use, mr.FirstMS); v != nil {
					info.Hash = h
					return v, info
				}
				if v := check(Req{Method: "BOGUS", Path: path, Host: host}, K405, pat, "", name, x.use, mr.FirstMS); v != nil {
					info.Hash = h
					return v, info
				}
			}
			if v := check(Req{Method: "GET", Path: "/nope", Host: host}, K404, "", "", name, x.use, nil); v != nil {
				info.Hash = h
				return v, info
			}
		}
		// nobody accepts: the group's not-found handler wrapped in the group's Use stack
		if v := check(Req{Method: "GET", Path: "/a", Host: "unknown.example.org"}, KGroup404, "", "", "", guse, nil); v != nil {
			info.Hash = h
			return v, info
		}
	}
	info.Hash = h
	info.Nontrivial = mutated
	return nil, info
}

func init() {
	register(&PropImpl{ID: "C09",
		Gen: func(r *Rng, idx int, tier string) *World {
			if r.Pct(30) {
				return genC09Group(r)
			}
			return genProgram(r, false)
		},
		Exec: execC09})
}
