//go:build race

package simrt

import (
	"runtime"
	"unsafe"
)

const RaceEnabled = true

func raceDisable() { runtime.RaceDisable() }
func raceEnable()  { runtime.RaceEnable() }

// RaceReleaseMerge / RaceAcquire reproduce sync.Pool's per-object edges.
func RaceReleaseMerge(p unsafe.Pointer) { runtime.RaceReleaseMerge(p) }
func RaceAcquire(p unsafe.Pointer)      { runtime.RaceAcquire(p) }
