package simrt

import (
	"sync"
	"time"
	"unsafe"
)

// ---- RWMutex -------------------------------------------------------------------

// RWMutexState is the simulator's logical view of one lock; the embedded real
// lock is only ever taken when the logical state says it cannot block, so the
// race detector sees exactly the happens-before edges of a real RWMutex.
type RWMutexState struct {
	Real    sync.RWMutex
	writer  *Task
	readers [32]*Task
	nr      int
	pending int // writers waiting: blocks new readers, as in Go
}

//go:norace
func (m *RWMutexState) holdsRead(t *Task) int {
	for i := 0; i < m.nr; i++ {
		if m.readers[i] == t {
			return i
		}
	}
	return -1
}

//go:norace
func (m *RWMutexState) addReader(t *Task) {
	if m.nr < len(m.readers) {
		m.readers[m.nr] = t
		m.nr++
	}
}

//go:norace
func (m *RWMutexState) Lock() {
	w := active
	if w == nil || w.cur == nil {
		// outside a simulated world one goroutine owns the instance: a lock that cannot be taken now
		// will never be released (self-deadlock, e.g. a forgotten Unlock) - report instead of hanging
		// (process-wide locks may be contended for a moment by the checker's own goroutines, hence the wait)
		for i := 0; !m.Real.TryLock(); i++ {
			if i > 3000 {
				panic(SelfDeadlock{})
			}
			time.Sleep(time.Millisecond)
		}
		return
	}
	t := w.cur
	if t.exiting {
		if m.Real.TryLock() {
			m.writer = t
		}
		return
	}
	w.point(t, KLock, 0)
	waited := false
	for m.writer != nil || m.nr > 0 {
		if !waited {
			waited = true
			m.pending++
			Counters[CLockBlocked]++
		}
		w.block(t, m)
	}
	if waited {
		m.pending--
	}
	m.writer = t
	Counters[CLockAcquire]++
	m.Real.Lock()
}

//go:norace
func (m *RWMutexState) TryLock() bool {
	w := active
	if w == nil || w.cur == nil {
		return m.Real.TryLock()
	}
	t := w.cur
	if !t.exiting {
		w.point(t, KLock, 0)
	}
	if m.writer != nil || m.nr > 0 {
		return false
	}
	if !m.Real.TryLock() {
		return false
	}
	m.writer = t
	return true
}

//go:norace
func (m *RWMutexState) Unlock() {
	w := active
	if w == nil || w.cur == nil {
		m.Real.Unlock()
		return
	}
	t := w.cur
	if t.exiting && m.writer != t {
		return
	}
	if m.writer == nil {
		// unlock of unlocked mutex: let the real one produce Go's fatal error
		m.Real.Unlock()
		return
	}
	m.writer = nil
	m.Real.Unlock()
	w.wakeWaiters(m)
	if !t.exiting {
		w.point(t, KUnlock, 0)
	}
}

//go:norace
func (m *RWMutexState) RLock() {
	w := active
	if w == nil || w.cur == nil {
		for i := 0; !m.Real.TryRLock(); i++ {
			if i > 3000 {
				panic(SelfDeadlock{})
			}
			time.Sleep(time.Millisecond)
		}
		return
	}
	t := w.cur
	if t.exiting {
		if m.Real.TryRLock() {
			m.addReader(t)
		}
		return
	}
	w.point(t, KLock, 0)
	for m.writer != nil || m.pending > 0 {
		Counters[CLockBlocked]++
		w.block(t, m)
	}
	m.addReader(t)
	Counters[CRLockAcquire]++
	m.Real.RLock()
}

//go:norace
func (m *RWMutexState) TryRLock() bool {
	w := active
	if w == nil || w.cur == nil {
		return m.Real.TryRLock()
	}
	t := w.cur
	if !t.exiting {
		w.point(t, KLock, 0)
	}
	if m.writer != nil || m.pending > 0 {
		return false
	}
	if !m.Real.TryRLock() {
		return false
	}
	m.addReader(t)
	return true
}

//go:norace
func (m *RWMutexState) RUnlock() {
	w := active
	if w == nil || w.cur == nil {
		m.Real.RUnlock()
		return
	}
	t := w.cur
	i := m.holdsRead(t)
	if i < 0 && t.exiting {
		return
	}
	if i < 0 {
		if m.nr == 0 {
			m.Real.RUnlock() // fatal error, as in Go
			return
		}
		i = 0 // RUnlock from another goroutine is legal in Go
	}
	for j := i; j+1 < m.nr; j++ {
		m.readers[j] = m.readers[j+1]
	}
	m.nr--
	m.readers[m.nr] = nil
	m.Real.RUnlock()
	if m.nr == 0 {
		w.wakeWaiters(m)
	}
	if !t.exiting {
		w.point(t, KUnlock, 0)
	}
}

// ---- Pool ----------------------------------------------------------------------

// PoolCfg decides what the simulated allocator does; percentages.
type PoolCfg struct {
	Seed                        uint64
	Drop                        int // Put: % dropped
	Fresh, Newest, Oldest, Rand int // Get with a non-empty free list: relative weights
}

type pooled struct {
	obj  any
	task int
}

type PoolState struct {
	free []pooled // capacity managed by hand: append/copy are instrumented by the race runtime
	n    int
	reg  bool
}

var (
	pools   [64]*PoolState
	npools  int
	poolCfg = PoolCfg{Newest: 1}
	poolRng rng
)

// SetPoolCfg installs the allocator policy and empties every pool.
//
//go:norace
func SetPoolCfg(c PoolCfg) {
	poolCfg = c
	poolRng.s = c.Seed ^ 0xabcdef12345
	for i := 0; i < npools; i++ {
		pools[i].n = 0
	}
}

func dataPtr(x any) unsafe.Pointer { return (*[2]unsafe.Pointer)(unsafe.Pointer(&x))[1] }

//go:norace
func (p *PoolState) Get(newf func() any) any {
	if !p.reg {
		p.reg = true
		if npools < len(pools) {
			pools[npools] = p
			npools++
		}
	}
	if w := active; w != nil && w.cur != nil && !w.cur.exiting {
		w.point(w.cur, KPool, 0)
	}
	n := p.n
	if n == 0 {
		Counters[CPoolGetFresh]++
		if newf == nil {
			return nil
		}
		return newf()
	}
	c := &poolCfg
	tot := c.Fresh + c.Newest + c.Oldest + c.Rand
	k := 0
	if tot > 0 {
		k = poolRng.intn(tot)
	}
	var idx int
	switch {
	case k < c.Fresh:
		Counters[CPoolGetFresh]++
		if newf == nil {
			return nil
		}
		return newf()
	case k < c.Fresh+c.Newest || tot == 0:
		idx = n - 1
		Counters[CPoolGetNewest]++
	case k < c.Fresh+c.Newest+c.Oldest:
		idx = 0
		Counters[CPoolGetOldest]++
	default:
		idx = poolRng.intn(n)
		Counters[CPoolGetRandom]++
	}
	e := p.free[idx]
	for j := idx; j+1 < p.n; j++ {
		p.free[j] = p.free[j+1]
	}
	p.n--
	p.free[p.n] = pooled{}
	if e.task != CurrentTask() {
		Counters[CPoolCrossTask]++
	}
	RaceAcquire(dataPtr(e.obj))
	return e.obj
}

//go:norace
func (p *PoolState) Put(x any) {
	if x == nil {
		return
	}
	if !p.reg {
		p.reg = true
		if npools < len(pools) {
			pools[npools] = p
			npools++
		}
	}
	if w := active; w != nil && w.cur != nil && !w.cur.exiting {
		w.point(w.cur, KPool, 0)
	}
	if poolCfg.Drop > 0 && poolRng.intn(100) < poolCfg.Drop {
		Counters[CPoolPutDrop]++
		return
	}
	Counters[CPoolPutKeep]++
	RaceReleaseMerge(dataPtr(x))
	if p.n == len(p.free) {
		nf := make([]pooled, 2*len(p.free)+8)
		for j := 0; j < p.n; j++ {
			nf[j] = p.free[j]
		}
		p.free = nf
	}
	p.free[p.n] = pooled{obj: x, task: CurrentTask()}
	p.n++
}
