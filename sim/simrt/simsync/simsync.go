// Package simsync replaces package sync in the instrumented copy: Mutex,
// RWMutex and Pool are simulated (see simrt), everything else is the real thing.
package simsync

import (
	"sync"

	"github.com/issue9/mux/v9/simrt"
)

type (
	Locker    = sync.Locker
	Once      = sync.Once
	WaitGroup = sync.WaitGroup
	Map       = sync.Map
	Cond      = sync.Cond
)

func NewCond(l Locker) *Cond { return sync.NewCond(l) }

func OnceFunc(f func()) func()                          { return sync.OnceFunc(f) }
func OnceValue[T any](f func() T) func() T               { return sync.OnceValue(f) }
func OnceValues[T1, T2 any](f func() (T1, T2)) func() (T1, T2) { return sync.OnceValues(f) }

type RWMutex struct{ s simrt.RWMutexState }

func (m *RWMutex) Lock()          { m.s.Lock() }
func (m *RWMutex) Unlock()        { m.s.Unlock() }
func (m *RWMutex) RLock()         { m.s.RLock() }
func (m *RWMutex) RUnlock()       { m.s.RUnlock() }
func (m *RWMutex) TryLock() bool  { return m.s.TryLock() }
func (m *RWMutex) TryRLock() bool { return m.s.TryRLock() }
func (m *RWMutex) RLocker() Locker { return (*rlocker)(m) }

type rlocker RWMutex

func (r *rlocker) Lock()   { (*RWMutex)(r).RLock() }
func (r *rlocker) Unlock() { (*RWMutex)(r).RUnlock() }

type Mutex struct{ s simrt.RWMutexState }

func (m *Mutex) Lock()         { m.s.Lock() }
func (m *Mutex) Unlock()       { m.s.Unlock() }
func (m *Mutex) TryLock() bool { return m.s.TryLock() }

type Pool struct {
	New func() any
	s   simrt.PoolState
}

func (p *Pool) Get() any  { return p.s.Get(p.New) }
func (p *Pool) Put(x any) { p.s.Put(x) }
