//go:build !race

package simrt

import "unsafe"

const RaceEnabled = false

func raceDisable() {}
func raceEnable()  {}

func RaceReleaseMerge(p unsafe.Pointer) {}
func RaceAcquire(p unsafe.Pointer)      {}
