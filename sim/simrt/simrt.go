// Package simrt is the deterministic simulator runtime that the instrumented
// copy of the module under test is linked against.
//
// Exactly one task (a real goroutine) runs at a time.  A task runs until it
// reaches a decision point (an inserted Yield, a lock edge of the sync shim, a
// pool call, an operation boundary) at which the scheduler decides to switch.
// All scheduler state lives in this package and is touched only from
// //go:norace functions; the hand-off between goroutines is hidden from the race
// detector (raceDisable/raceEnable) so that the detector sees exactly the
// happens-before edges that the code under test creates itself.
//
// With no active world every entry point is a no-op (world construction,
// sequential replicas, the module's own test-suite on the instrumented copy).
package simrt

import (
	"reflect"
	"runtime"
	"sync"
)

// Kinds of decision point.
const (
	KStmt   = iota // inserted statement yield
	KLock          // just before Lock/RLock
	KUnlock        // just after Unlock/RUnlock
	KOp            // operation boundary (harness)
	KPool          // pool Get/Put
	KUser          // inside a simulated user component
	nKinds
)

// Strategy names.
const (
	SWalk = iota
	SPCT
	SLockEdge
	SOpAtomic
)

// Switch is one recorded context switch.
type Switch struct {
	Step int64 `json:"s"`
	To   int   `json:"t"`
	Site int   `json:"at"` // yield site (KStmt) or -kind-1
}

// Config of one world.
type Config struct {
	Seed     uint64
	Strategy int
	// per-kind switch probability is 1/Den[kind] (0 = never) for SWalk,
	// SLockEdge, SOpAtomic; filled by NewWorld from Strategy and P.
	P        int   // walk: 1/P at every point
	PCTDepth int   // number of priority change points
	PCTLen   int64 // estimated length for change point placement
	MaxSteps int64
	Replay   []Switch // if non-nil: follow exactly this schedule
	UseReplay bool
}

const (
	stReady = iota
	stBlocked
	stDone
)

type Task struct {
	ID      int
	Name    string
	fn      func()
	wake    chan struct{}
	state   int
	blocked any
	noYield int
	rstack  []bool
	prio    int
	started bool
	exiting bool
	Panic   any // panic that escaped fn (harness records)
}

type World struct {
	cfg   Config
	tasks []*Task
	cur   *Task
	steps int64
	rng   rng
	den   [nKinds]int
	rpos  int
	rec   []Switch
	nrec  int
	hash  uint64

	aborted     bool
	AbortReason string

	pctPoints []int64
	pctLow    int

	wg sync.WaitGroup

	// statistics
	Preempts     int64 // switches taken while the leaving task was inside an operation
	Switches     int64
	ParkedInLock int64
	inOp         []bool
}

var active *World

// SiteHits counts executions of every yield site (all worlds of the process).
var SiteHits [NumSites + 1]uint32

type rng struct{ s uint64 }

//go:norace
func (r *rng) next() uint64 {
	r.s += 0x9e3779b97f4a7c15
	z := r.s
	z = (z ^ (z >> 30)) * 0xbf58476d1ce4e5b9
	z = (z ^ (z >> 27)) * 0x94d049bb133111eb
	return z ^ (z >> 31)
}

//go:norace
func (r *rng) intn(n int) int {
	if n <= 1 {
		return 0
	}
	return int(r.next() % uint64(n))
}

// NewWorld creates a world; tasks are added with Go and executed by Run.
func NewWorld(cfg Config) *World {
	w := &World{cfg: cfg}
	w.rng.s = cfg.Seed*0x2545F4914F6CDD1D + 0x1234567
	if cfg.MaxSteps == 0 {
		w.cfg.MaxSteps = 200000
	}
	p := cfg.P
	if p <= 0 {
		p = 32
	}
	switch cfg.Strategy {
	case SWalk:
		for k := range w.den {
			w.den[k] = p
		}
		w.den[KOp] = 2
	case SLockEdge:
		w.den[KLock], w.den[KUnlock], w.den[KOp], w.den[KPool] = 2, 2, 2, 4
	case SOpAtomic:
		w.den[KOp] = 2
	case SPCT:
		d := cfg.PCTDepth
		l := cfg.PCTLen
		if l <= 0 {
			l = 4000
		}
		for i := 0; i < d; i++ {
			w.pctPoints = append(w.pctPoints, 1+int64(w.rng.next()%uint64(l)))
		}
	}
	return w
}

// Go registers a task.
func (w *World) Go(name string, fn func()) *Task {
	t := &Task{ID: len(w.tasks), Name: name, fn: fn, wake: make(chan struct{})}
	w.tasks = append(w.tasks, t)
	w.inOp = append(w.inOp, false)
	return t
}

// Run executes all tasks to completion (or abort) and returns.
func (w *World) Run() {
	if active != nil {
		panic("simrt: nested world")
	}
	if len(w.tasks) == 0 {
		return
	}
	if w.cfg.Strategy == SPCT {
		// random distinct priorities, all above the "lowered" range
		perm := make([]int, len(w.tasks))
		for i := range perm {
			perm[i] = i
		}
		for i := len(perm) - 1; i > 0; i-- {
			j := w.rng.intn(i + 1)
			perm[i], perm[j] = perm[j], perm[i]
		}
		for i, t := range w.tasks {
			t.prio = 1000 + perm[i]
		}
		w.pctLow = 999
	}
	w.wg.Add(len(w.tasks))
	for _, t := range w.tasks {
		go w.taskMain(t)
	}
	w.start()
	w.wg.Wait() // visible join: everything the tasks did happens-before what follows
	w.finish()
}

//go:norace
func (w *World) start() {
	active = w
	first := w.pickAny(nil, -1)
	if w.cfg.UseReplay && len(w.cfg.Replay) > 0 && w.cfg.Replay[0].Step == 0 {
		if id := w.cfg.Replay[0].To; id >= 0 && id < len(w.tasks) {
			first = w.tasks[id]
		}
		w.rpos = 1
	}
	w.push(Switch{Step: 0, To: first.ID, Site: -1})
	w.cur = first
	raceDisable()
	first.wake <- struct{}{}
	raceEnable()
}

//go:norace
func (w *World) finish() {
	active = nil
	w.cur = nil
}

func (w *World) taskMain(t *Task) {
	defer w.wg.Done()
	defer w.taskExit(t)
	raceDisable()
	<-t.wake
	raceEnable()
	if w.isAborted() {
		w.markExiting(t)
		return
	}
	w.markStarted(t)
	t.fn()
}

//go:norace
func (w *World) isAborted() bool { return w.aborted }

//go:norace
func (w *World) markStarted(t *Task) { t.started = true }

//go:norace
func (w *World) markExiting(t *Task) { t.exiting = true }

// taskExit runs deferred when a task ends (normally, by panic or by Goexit).
//
//go:norace
func (w *World) taskExit(t *Task) {
	if r := recover(); r != nil {
		t.Panic = r
	}
	t.state = stDone
	t.noYield = 0
	var next *Task
	if w.aborted {
		for _, o := range w.tasks {
			if o.state != stDone {
				next = o
				break
			}
		}
	} else {
		next = w.pickAny(t, w.steps+1)
		if next == nil {
			// nobody ready: either all done or deadlock
			for _, o := range w.tasks {
				if o.state == stBlocked {
					w.aborted = true
					w.AbortReason = "deadlock"
					next = o
					break
				}
			}
		}
	}
	if next == nil {
		return
	}
	w.steps++
	if !w.aborted {
		w.record(next, -100)
	}
	w.cur = next
	raceDisable()
	next.wake <- struct{}{}
	raceEnable()
}

// push appends to the recorded schedule without append/copy (both are
// instrumented by the race runtime even inside norace functions).
//
//go:norace
func (w *World) push(s Switch) {
	if w.nrec == len(w.rec) {
		nr := make([]Switch, 2*len(w.rec)+64)
		for i := 0; i < w.nrec; i++ {
			nr[i] = w.rec[i]
		}
		w.rec = nr
	}
	w.rec[w.nrec] = s
	w.nrec++
}

//go:norace
func (w *World) record(to *Task, site int) {
	w.push(Switch{Step: w.steps, To: to.ID, Site: site})
	w.hash = (w.hash ^ uint64(w.steps)*0x9e3779b97f4a7c15 ^ uint64(to.ID+1)*0xff51afd7ed558ccd ^ uint64(site+1000)) * 0x100000001b3
	w.Switches++
}

// pickAny picks a ready task other than not (nil allowed); nil if none.
//
//go:norace
func (w *World) pickAny(not *Task, at int64) *Task {
	if w.cfg.UseReplay {
		// forced switch in replay mode: recorded choice if it is for this step
		for w.rpos < len(w.cfg.Replay) && w.cfg.Replay[w.rpos].Step < at {
			w.rpos++
		}
		if w.rpos < len(w.cfg.Replay) && w.cfg.Replay[w.rpos].Step == at {
			id := w.cfg.Replay[w.rpos].To
			w.rpos++
			if id >= 0 && id < len(w.tasks) && w.tasks[id] != not && w.tasks[id].state == stReady {
				return w.tasks[id]
			}
		}
		for _, o := range w.tasks {
			if o != not && o.state == stReady {
				return o
			}
		}
		return nil
	}
	if w.cfg.Strategy == SPCT {
		var best *Task
		for _, o := range w.tasks {
			if o != not && o.state == stReady && (best == nil || o.prio > best.prio) {
				best = o
			}
		}
		return best
	}
	n := 0
	for _, o := range w.tasks {
		if o != not && o.state == stReady {
			n++
		}
	}
	if n == 0 {
		return nil
	}
	k := w.rng.intn(n)
	for _, o := range w.tasks {
		if o != not && o.state == stReady {
			if k == 0 {
				return o
			}
			k--
		}
	}
	return nil
}

// point is a decision point of the running task.
//
//go:norace
func (w *World) point(t *Task, kind, site int) {
	if t.exiting {
		return
	}
	w.steps++
	if w.aborted {
		t.exiting = true
		runtime.Goexit()
	}
	if w.steps > w.cfg.MaxSteps {
		w.aborted = true
		w.AbortReason = "cap"
		t.exiting = true
		runtime.Goexit()
	}
	var next *Task
	if w.cfg.UseReplay {
		if w.rpos >= len(w.cfg.Replay) || w.cfg.Replay[w.rpos].Step != w.steps {
			// skip stale entries
			for w.rpos < len(w.cfg.Replay) && w.cfg.Replay[w.rpos].Step < w.steps {
				w.rpos++
			}
			if w.rpos >= len(w.cfg.Replay) || w.cfg.Replay[w.rpos].Step != w.steps {
				return
			}
		}
		id := w.cfg.Replay[w.rpos].To
		w.rpos++
		if id < 0 || id >= len(w.tasks) || w.tasks[id].state != stReady || w.tasks[id] == t {
			return
		}
		next = w.tasks[id]
	} else if w.cfg.Strategy == SPCT {
		for i, p := range w.pctPoints {
			if p > 0 && p <= w.steps {
				w.pctLow--
				t.prio = w.pctLow
				w.pctPoints[i] = -1
			}
		}
		for _, o := range w.tasks {
			if o != t && o.state == stReady && o.prio > t.prio && (next == nil || o.prio > next.prio) {
				next = o
			}
		}
		if next == nil {
			return
		}
	} else {
		d := w.den[kind]
		if d == 0 || w.rng.intn(d) != 0 {
			return
		}
		next = w.pickAny(t, w.steps)
		if next == nil {
			return
		}
	}
	if w.inOp[t.ID] {
		w.Preempts++
	}
	s := site
	if kind != KStmt {
		s = -kind - 1
	}
	w.record(next, s)
	w.switchTo(t, next)
}

//go:norace
func (w *World) switchTo(from, to *Task) {
	w.cur = to
	raceDisable()
	to.wake <- struct{}{}
	<-from.wake
	raceEnable()
	if w.aborted {
		from.exiting = true
		runtime.Goexit()
	}
}

// block parks the running task until somebody calls wakeWaiters(on).
//
//go:norace
func (w *World) block(t *Task, on any) {
	t.state = stBlocked
	t.blocked = on
	w.ParkedInLock++
	w.steps++
	next := w.pickAny(t, w.steps)
	if next == nil {
		w.aborted = true
		w.AbortReason = "deadlock"
		t.state = stReady
		t.exiting = true
		runtime.Goexit()
	}
	w.record(next, -50)
	w.switchTo(t, next)
}

//go:norace
func (w *World) wakeWaiters(on any) {
	for _, o := range w.tasks {
		if o.state == stBlocked && o.blocked == on {
			o.state = stReady
			o.blocked = nil
		}
	}
}

// ---- entry points used by instrumented code ---------------------------------

// Yield is inserted before every statement of the code under test.
//
//go:norace
func Yield(site int) {
	SiteHits[site]++ // reach is measured in every world, also those without goroutine tasks
	w := active
	if w == nil {
		if yieldBudgetOn {
			yieldBudget--
			if yieldBudget < 0 {
				yieldBudgetOn = false
				panic(BudgetExceeded{})
			}
		}
		return
	}
	t := w.cur
	if t == nil || t.noYield > 0 {
		return
	}
	w.point(t, KStmt, site)
}

// RangeX wraps the operand of every range loop.  For a map operand context
// switches are suppressed until the matching RangeLeave.
//
//go:norace
func RangeX[T any](x T) T {
	w := active
	if w == nil || w.cur == nil {
		return x
	}
	t := w.cur
	isMap := false
	if ty := reflect.TypeOf(x); ty != nil && ty.Kind() == reflect.Map {
		isMap = true
		t.noYield++
	}
	t.rstack = append(t.rstack, isMap)
	return x
}

//go:norace
func RangeLeave() {
	w := active
	if w == nil || w.cur == nil {
		return
	}
	t := w.cur
	if n := len(t.rstack); n > 0 {
		if t.rstack[n-1] {
			t.noYield--
		}
		t.rstack = t.rstack[:n-1]
	}
}

//go:norace
func RangeDepth() int {
	w := active
	if w == nil || w.cur == nil {
		return -1
	}
	return len(w.cur.rstack)
}

//go:norace
func RangeRestore(d int) {
	w := active
	if d < 0 || w == nil || w.cur == nil {
		return
	}
	t := w.cur
	for len(t.rstack) > d {
		n := len(t.rstack)
		if t.rstack[n-1] {
			t.noYield--
		}
		t.rstack = t.rstack[:n-1]
	}
}

// ---- entry points used by the harness ---------------------------------------

// Point is a decision point of the given kind issued by harness code running
// inside a task (operation boundaries, simulated user components).
//
//go:norace
func Point(kind int) {
	w := active
	if w == nil || w.cur == nil {
		return
	}
	w.point(w.cur, kind, 0)
}

// Stamp returns the next value of the global event sequence.
//
//go:norace
func Stamp() int64 {
	w := active
	if w == nil {
		return 0
	}
	w.steps++
	return w.steps
}

// InOp marks the running task as being inside / outside an operation.
//
//go:norace
func InOp(b bool) {
	w := active
	if w == nil || w.cur == nil {
		return
	}
	w.inOp[w.cur.ID] = b
}

// CurrentTask returns the id of the running task, -1 outside a world.
//
//go:norace
func CurrentTask() int {
	w := active
	if w == nil || w.cur == nil {
		return -1
	}
	return w.cur.ID
}

// NoYield(+1/-1) lets harness code (simulated components) suppress switches.
//
//go:norace
func NoYield(d int) {
	w := active
	if w == nil || w.cur == nil {
		return
	}
	w.cur.noYield += d
}

// Aborted reports whether the active world has been aborted.
//
//go:norace
func Aborted() bool {
	w := active
	return w != nil && w.aborted
}

func (w *World) Steps() int64      { return w.steps }
func (w *World) Recorded() []Switch { return w.rec[:w.nrec] }
func (w *World) Hash() uint64       { return w.hash }
func (w *World) Tasks() []*Task     { return w.tasks }
func (w *World) WasAborted() bool   { return w.aborted }

// Fold mixes harness observations into the world's event hash.
//
//go:norace
func Fold(x uint64) {
	w := active
	if w == nil {
		return
	}
	w.hash = (w.hash ^ x) * 0x100000001b3
}

// Stat counters shared by shim and harness (only touched under norace).
const (
	CPoolGetFresh = iota
	CPoolGetNewest
	CPoolGetOldest
	CPoolGetRandom
	CPoolPutKeep
	CPoolPutDrop
	CPoolCrossTask // Get returned an object last Put by another task
	CLockBlocked
	CLockAcquire
	CRLockAcquire
	CUser0
	CUser1
	CUser2
	CUser3
	CUser4
	CUser5
	CUser6
	CUser7
	NCounters
)

var Counters [NCounters]int64

//go:norace
func Count(i int) { Counters[i]++ }

//go:norace
func CountN(i int, n int64) { Counters[i] += n }

//go:norace
func ReadCounters() [NCounters]int64 { return Counters }

//go:norace
func ReadSiteHits() (hit, total int) {
	for i := 0; i < NumSites; i++ {
		if SiteHits[i] > 0 {
			hit++
		}
	}
	return hit, NumSites
}

// ResetSiteHits forgets what ran so far (the harness calls it after warm-up).
//
//go:norace
func ResetSiteHits() {
	for i := range SiteHits {
		SiteHits[i] = 0
	}
}

// HitSites lists the names (file:line) of the yield sites executed so far.
//
//go:norace
func HitSites() []string {
	var s []string
	for i := 0; i < NumSites; i++ {
		if SiteHits[i] > 0 {
			s = append(s, SiteNames[i])
		}
	}
	return s
}

// BudgetExceeded is the panic value thrown when code running outside a task
// world executes more statements than the budget allows (non-termination).
type BudgetExceeded struct{}

// SelfDeadlock is the panic value thrown when code running outside a task (one goroutine, one
// instance) blocks on a simulated lock that is still held: nobody is left to release it.
type SelfDeadlock struct{}

func (SelfDeadlock) Error() string { return "simrt: lock is still held and nobody can release it (self-deadlock)" }

func (BudgetExceeded) Error() string { return "simrt: statement budget exceeded (non-termination)" }

var (
	yieldBudget   int64
	yieldBudgetOn bool
)

// SetYieldBudget arms (n > 0) or disarms (n <= 0) the statement budget for code
// that runs outside a task world.
//
//go:norace
func SetYieldBudget(n int64) {
	yieldBudget = n
	yieldBudgetOn = n > 0
}
