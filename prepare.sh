#!/bin/bash
# prepare.sh: copy /repo's working tree to a scratch dir, instrument it, build the
# harness (plain and -race).  Binaries are cached under /verif/.cache/<key> where
# key = sha256 of every .go/go.mod/go.sum file of /repo's working tree and of the
# simulator + harness sources.  Prints the cache directory on stdout.
# exit 2 on any build problem (never a VIOLATION).
set -u
export GOFLAGS=-mod=mod GOPROXY=off GOSUMDB=off GOTOOLCHAIN=local
V=$(dirname "$(readlink -f "$0")")
REPO=${VERIF_REPO:-/repo}
CACHE=${VERIF_CACHE:-$V/.cache}
mkdir -p $CACHE $V/bin
key=$( { cd $REPO && find . -path ./.git -prune -o -type f \( -name '*.go' -o -name go.mod -o -name go.sum \) -print0 | sort -z | xargs -0 sha256sum; cd $V && find sim harness tools/instr -type f \( -name '*.go' -o -name go.mod \) -print0 | sort -z | xargs -0 sha256sum; } | sha256sum | cut -c1-24)
C=$CACHE/$key
# one builder at a time per cache (checks may be started in parallel on the same tree)
exec 9>"$CACHE/.lock" && flock 9
if [ -x $C/h ] && [ -x $C/h.race ] && [ -f $C/ok ]; then
  touch $C/ok
  echo $C
  exit 0
fi
if [ ! -x $V/bin/instr ] || [ $V/tools/instr/main.go -nt $V/bin/instr ]; then
  (cd $V/tools && go build -o $V/bin/instr ./instr) >&2 || { echo "prepare: cannot build instr" >&2; exit 2; }
fi
S=$(mktemp -d ${VERIF_SCRATCH:-/var/tmp}/verif-build-XXXXXX)
trap 'rm -rf "$S"' EXIT
rsync -a --exclude .git $REPO/ $S/mux/ || exit 2
rm -rf $S/mux/simrt
cp -r $V/sim/simrt $S/mux/simrt
$V/bin/instr $S/mux >&2 || { echo "prepare: instrumentation failed" >&2; exit 2; }
mkdir -p $S/h && cp $V/harness/*.go $V/harness/go.mod $S/h/ && cat $REPO/go.sum > $S/h/go.sum
rm -rf $C.tmp && mkdir -p $C.tmp
(cd $S/h && go build -o $C.tmp/h . ) >&2 || { echo "prepare: harness build failed (plain)" >&2; rm -rf $C.tmp; exit 2; }
(cd $S/h && go build -race -o $C.tmp/h.race . ) >&2 || { echo "prepare: harness build failed (race)" >&2; rm -rf $C.tmp; exit 2; }
cp $S/mux/simrt/sites_gen.go $C.tmp/sites_gen.go
# semantic neutrality: the instrumented copy must pass the module's own tests
if [ "${VERIF_SKIP_NEUTRALITY:-0}" != 1 ]; then
  (cd $S/mux && go test -vet=off -count=1 ./... ) > $C.tmp/neutrality.log 2>&1 || { echo "prepare: module's own tests fail on the instrumented copy (see below)" >&2; tail -30 $C.tmp/neutrality.log >&2; rm -rf $C.tmp; exit 2; }
fi
touch $C.tmp/ok
rm -rf $C && mv $C.tmp $C
# keep the three most recently *used* cache entries (ok is touched on every use); older ones go unless
# they were used within the last 20 minutes (a check may still be running from them); never more than 12
n=0
for okf in $(ls -1t $CACHE/*/ok 2>/dev/null); do
  n=$((n+1)); d=$(dirname $okf)
  [ $n -le 3 ] && continue
  if [ $n -gt 12 ] || [ -z "$(find $okf -mmin -20 2>/dev/null)" ]; then rm -rf $d; fi
done
echo $C
