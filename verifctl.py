#!/usr/bin/env python3
"""verifctl: driver of the deterministic-simulation checks.

  verifctl.py check <ID> <quick|thorough>     run one property's check (MANIFEST quick_cmd / thorough_cmd)
  verifctl.py replay <file>                   re-execute a replay file against /repo's current tree
  verifctl.py selftest                        determinism self-test of the simulator (not a property check)

Exit codes: 0 held on everything explored (KNOWN-FINDING lines possible), 1 after a
line "VIOLATION property=<id> replay=<path>", 2 infrastructure trouble (never a VIOLATION).
"""
import json, os, re, shutil, subprocess, sys, tempfile, time, glob

V = os.path.dirname(os.path.abspath(__file__))  # /verif, or a snapshot of it (vp run)
OUT = os.environ.get('VERIF_OUT', V)  # evidence/ and replays/ go here (mutation testing redirects it)
NCPU = int(os.environ.get("VERIF_NCPU", "0")) or os.cpu_count() or 8

# property -> parameters. n = worlds per tier (upper bound), budget = seconds per worker, batch = worlds per process
PROPS = {
    'C01': dict(race=False, quick=(50000000, 25), thorough=(2000000000, 600), batch=2500),
    'C02': dict(race=False, quick=(50000000, 25), thorough=(2000000000, 600), batch=2500),
    'C03': dict(race=False, quick=(50000000, 30), thorough=(2000000000, 600), batch=750),
    'C04': dict(race=False, quick=(50000000, 25), thorough=(2000000000, 600), batch=2000),
    'C05': dict(race=False, quick=(50000000, 25), thorough=(2000000000, 600), batch=2000),
    'C06': dict(race=True,  quick=(50000000, 35), thorough=(2000000000, 900), batch=250),
    'C07': dict(race=True,  quick=(50000000, 35), thorough=(2000000000, 900), batch=64, cold=True, fork=True),
    'C08': dict(race=False, quick=(50000000, 25), thorough=(2000000000, 600), batch=2000),
    'C09': dict(race=False, quick=(50000000, 25), thorough=(2000000000, 600), batch=2000),
    'C13': dict(race=False, quick=(50000000, 25), thorough=(2000000000, 600), batch=2000),
    'C14': dict(race=False, quick=(50000000, 25), thorough=(2000000000, 600), batch=2000),
    'C16': dict(race=True,  quick=(50000000, 35), thorough=(2000000000, 900), batch=250),
    'C17': dict(race=False, quick=(50000000, 25), thorough=(2000000000, 600), batch=1500),
    'C18': dict(race=False, quick=(50000000, 25), thorough=(2000000000, 600), batch=2000),
    'C19': dict(race=False, quick=(50000000, 25), thorough=(2000000000, 600), batch=1500),
    'C20': dict(race=True,  quick=(50000000, 35), thorough=(2000000000, 900), batch=250),
}

FAULT_KEYS = ('pool_', 'fault_', 'preempt', 'op_reject', 'hostile', 'garbage', 'short_read', 'lock_blocked')

def env_go():
    e = dict(os.environ)
    e.update(GOFLAGS='-mod=mod', GOPROXY='off', GOSUMDB='off', GOTOOLCHAIN='local')
    return e

def die(code, msg):
    print(msg, file=sys.stderr)
    sys.exit(code)

def prepare():
    p = subprocess.run([V + '/prepare.sh'], stdout=subprocess.PIPE, stderr=subprocess.PIPE, text=True, env=env_go())
    if p.returncode != 0:
        sys.stderr.write(p.stderr)
        die(2, 'verifctl: build of the instrumented copy failed (exit 2, not a violation)')
    return p.stdout.strip().splitlines()[-1]

def load_known():
    try:
        return json.load(open(V + '/known_findings.json'))
    except FileNotFoundError:
        return {'findings': []}

def known_match(known, prop, oracle, sig):
    for k in known.get('findings', []):
        if k.get('status') != 'known' or k.get('property') != prop:
            continue
        m = k.get('match', {})
        if m.get('oracle') == oracle and m.get('signature') == sig:
            return k
    return None

RACE_RE = re.compile(r'WARNING: DATA RACE(.*?)={18}', re.S)

def race_signature(text):
    """Normalise the first race report to a pair of topmost frames inside the module under test."""
    m = RACE_RE.search(text)
    if not m:
        return None, None
    rep = m.group(1)
    blocks = re.split(r'\n\n', rep.strip())
    accs = []
    for b in blocks:
        if not re.match(r'\s*(Read|Write|Previous read|Previous write|Atomic|Previous atomic)', b.strip()):
            continue
        lines = b.strip().splitlines()
        kind = lines[0].split(' at ')[0].strip().lower().replace('previous ', '')
        frame = None
        i = 1
        while i + 1 < len(lines):
            fn = lines[i].strip()
            loc = lines[i + 1].strip()
            i += 2
            if fn.startswith('runtime.') or fn.startswith('sync.') or fn.startswith('internal/'):
                continue
            if '/simrt/' in loc or fn.startswith('main.'):
                frame = kind + ' <harness:%s>' % fn.split('(')[0]
                break
            mm = re.search(r'/mux/(.*?\.go):(\d+)', loc)
            if not mm and 'github.com/issue9/mux' in fn and '/simrt' not in fn:
                # compiler-generated wrapper (promoted method): no source position, still module code
                f = re.sub(r'\[.*?\]', '', fn.split('/')[-1])
                frame = '%s %s@<autogenerated>' % (kind, re.sub(r'\(\)$', '', f))
                break
            if mm and 'github.com/issue9/mux' in fn:
                f = re.sub(r'\[.*?\]', '', fn.split('/')[-1])
                f = re.sub(r'\(\)$', '', f)
                frame = '%s %s@%s:%s' % (kind, f, mm.group(1), mm.group(2))
                break
            # some other package (stdlib called from the module): keep looking upwards
        accs.append(frame or (kind + ' <outside module>'))
    if len(accs) < 2:
        return None, rep
    sig = ' | '.join(sorted(accs[:2]))
    return sig, rep

class Runner:
    def __init__(self, prop, tier, seed):
        self.prop, self.tier, self.seed = prop, tier, seed
        self.cfg = PROPS[prop]
        self.cache = prepare()
        self.bin = self.cache + ('/h.race' if self.cfg['race'] else '/h')
        self.tmp = tempfile.mkdtemp(prefix='verif-run-', dir=os.environ.get('VERIF_SCRATCH', '/var/tmp'))
        self.t0 = time.time()

    def cleanup(self):
        shutil.rmtree(self.tmp, ignore_errors=True)

    def env(self):
        e = dict(os.environ)
        e['GORACE'] = 'halt_on_error=1 exitcode=66 atexit_sleep_ms=0'
        e['GOMAXPROCS'] = '2'
        if self.cfg.get('cold'):
            e['VERIF_COLD'] = '1'
        return e

    def run_batches(self):
        n, budget = self.cfg[self.tier]
        n = int(os.environ.get('VERIF_WORLDS', n))
        budget = float(os.environ.get('VERIF_BUDGET', budget))
        batch = self.cfg['batch']
        njobs = (n + batch - 1) // batch
        deadline = self.t0 + budget
        running, results, races, errors = [], [], [], []
        ji = 0
        while ji < njobs or running:
            while ji < njobs and len(running) < NCPU and time.time() < deadline:
                a, cnt = ji * batch, min(batch, n - ji * batch); ji += 1
                out = '%s/b%d.json' % (self.tmp, a)
                err = open('%s/b%d.err' % (self.tmp, a), 'w')
                left = max(1.0, deadline - time.time())
                cmd = [self.bin, '-prop', self.prop, '-seed', str(self.seed), '-from', str(a), '-n', str(cnt), '-tier', self.tier,
                       '-out', out, '-budget', '%.1f' % left]
                if self.cfg['race']:
                    cmd.append('-begin')
                if self.cfg.get('fork'):
                    cmd.append('-fork')
                p = subprocess.Popen(cmd, stdout=subprocess.DEVNULL, stderr=err, env=self.env())
                running.append((p, a, cnt, out, err, time.time()))
            if ji < njobs and time.time() >= deadline:
                ji = njobs  # budget used up: remaining batches are not started
            still = []
            for item in running:
                p, a, cnt, out, err, st = item
                rc = p.poll()
                if rc is None:
                    if time.time() - st > budget + 120:
                        p.kill(); errors.append('batch %d: watchdog (no result after %ds)' % (a, budget + 120))
                    else:
                        still.append(item)
                    continue
                err.close()
                etxt = open(err.name, errors='replace').read()
                if rc == 0:
                    try:
                        results.append(json.load(open(out)))
                    except Exception as ex:
                        errors.append('batch %d: unreadable result: %s' % (a, ex))
                elif rc == 66:
                    begins = re.findall(r'^BEGIN (\d+)$', etxt, re.M)
                    races.append((int(begins[-1]) if begins else a, etxt, a))
                else:
                    errors.append('batch %d: exit %d: %s' % (a, rc, etxt[-2000:]))
            running = still
            time.sleep(0.004 if batch <= 4 else 0.02)
        return results, races, errors

    def gen_world(self, idx):
        p = subprocess.run([self.cache + '/h', '-gen', '-prop', self.prop, '-seed', str(self.seed), '-from', str(idx), '-tier', self.tier],
                           stdout=subprocess.PIPE, text=True)
        return json.loads(p.stdout)

    def replay_once(self, path):
        """fresh process; returns (rc, stdout, stderr)"""
        p = subprocess.run([self.bin, '-replay', path], stdout=subprocess.PIPE, stderr=subprocess.PIPE, text=True, env=self.env(), timeout=600)
        return p.returncode, p.stdout, p.stderr

    def minimise_race(self, path, sig):
        """delta-debug the op lists of a racing world by fresh-process executions (predicate: same race signature)."""
        rf = json.load(open(path))
        w = rf['world']
        tries = [0]
        t_end = time.time() + 60
        def test(cand):
            if tries[0] >= 150 or time.time() > t_end:
                return False
            tries[0] += 1
            tmp = '%s/cand.json' % self.tmp
            json.dump({'property': self.prop, 'world': cand}, open(tmp, 'w'))
            rc, so, se = self.replay_once(tmp)
            if rc != 66:
                return False
            s, _ = race_signature(se)
            return s is not None and s.count('<harness:') + s.count('<outside module>') < 2
        def lists(w):
            res = [('ops', None), ('setup', None)]
            for i in range(len(w.get('tasks') or [])):
                res.append(('tasks', i))
            return res
        def get(w, k):
            l = w.get(k[0]) or []
            return l if k[1] is None else (l[k[1]] or [])
        def put(w, k, v):
            if k[1] is None:
                if v or w.get(k[0]):
                    w[k[0]] = v
            else:
                w[k[0]][k[1]] = v
        for k in lists(w):
            chunk = max(1, (len(get(w, k)) + 1) // 2)
            while chunk >= 1:
                i = 0
                while i + chunk <= len(get(w, k)):
                    cand = json.loads(json.dumps(w))
                    l = get(cand, k)
                    put(cand, k, l[:i] + l[i + chunk:])
                    if test(cand):
                        w = cand
                    else:
                        i += chunk
                chunk //= 2
        rf['world'] = w
        rf['minimised'] = True
        rf['note'] = 'minimised with %d fresh-process executions (predicate: same race signature)' % tries[0]
        json.dump(rf, open(path, 'w'), indent=1)

def site_summary(hit):
    by = {}
    for s in hit:
        f = s.rsplit(':', 1)[0]
        by[f] = by.get(f, 0) + 1
    return dict(sorted(by.items()))

def check(prop, tier):
    if prop not in PROPS:
        die(2, 'verifctl: property %s has no check (see MANIFEST.json not_applicable)' % prop)
    seed = int(os.environ.get('VERIF_SEED', '1') or 1)
    print('VERIF_SEED=%d property=%s tier=%s' % (seed, prop, tier))
    R = Runner(prop, tier, seed)
    try:
        return _check(R)
    finally:
        R.cleanup()

def _check(R):
    prop, tier, seed = R.prop, R.tier, R.seed
    results, races, errors = R.run_batches()
    trouble = errors
    any_found = any(r.get('found') for r in results) or bool(races)
    if errors and not any_found:
        for e in errors[:5]:
            print('verifctl: ' + e, file=sys.stderr)
        die(2, 'verifctl: %d worker problem(s) (exit 2, not a violation)' % len(errors))
    if errors:
        # some workers had trouble, others found violations that replay in a fresh process: report those
        for e in errors[:3]:
            print('verifctl: (worker trouble, ignored because other workers found replayable violations) ' + e[:300], file=sys.stderr)
    if not results and not races:
        die(2, 'verifctl: no batch finished')

    # ---- merge
    worlds = sum(r['done'] for r in results)
    nontriv = sum(r['stats']['nontrivial'] for r in results)
    events = sum(r['stats']['sim_events'] for r in results)
    counters, simc, inconcl = {}, {}, {}
    distinct, inter = set(), set()
    samples = []
    rechecks = 0
    sites_hit = sites_total = 0
    hit_sites = set()
    for r in results:
        for k, v in r['stats']['counters'].items():
            counters[k] = counters.get(k, 0) + v
        for k, v in (r.get('sim_counters') or {}).items():
            simc[k] = simc.get(k, 0) + v
        for k, v in (r['stats'].get('inconclusive') or {}).items():
            inconcl[k] = inconcl.get(k, 0) + v
        if len(distinct) < 4000000:
            distinct.update(r['stats'].get('distinct') or [])
        if len(inter) < 4000000:
            inter.update(r['stats'].get('interleavings') or [])
        if len(samples) < 3:
            samples.extend((r['stats'].get('samples') or [])[:1])
        rechecks += r['stats'].get('determinism_rechecks', 0)
        hit_sites.update(r.get('hit_sites') or []); sites_total = r.get('sites_total', 0)

    capped = inconcl.get('cap', 0)
    if worlds and capped > worlds * 0.01:
        die(2, 'verifctl: %d of %d worlds hit the step cap (>1%%): harness trouble' % (capped, worlds))

    # ---- violations
    known = load_known()
    found = []  # (world, violation dict, racetext)
    seen = set()
    for r in results:
        for f in r.get('found') or []:
            key = (f['violation']['oracle'], f['violation']['signature'])
            if key in seen:
                continue
            seen.add(key)
            found.append((f['world'], f['violation'], None))
    for idx, etxt, a in races:
        sig, rep = race_signature(etxt)
        if sig is None:
            die(2, 'verifctl: worker exited 66 without a parsable race report:\n' + etxt[-3000:])
        # a harness bug has BOTH accesses in simulator/harness code; one access in the module and one in harness code
        # is the module racing on memory it shares with the code it calls (a buffer handed to an io.Writer, ...)
        if sig.count('<outside module>') + sig.count('<harness:') == 2:
            die(2, 'verifctl: race report inside the simulator/harness, not the module under test (harness bug, exit 2):\n' + rep[:3000])
        key = ('race-detector', sig)
        if key in seen:
            continue
        seen.add(key)
        w = R.gen_world(idx)
        found.append((w, {'property': prop, 'oracle': 'race-detector', 'signature': sig, 'detail': rep.strip()[:4000], 'step': 0}, etxt))

    os.makedirs(OUT + '/replays', exist_ok=True)
    viol_lines, known_lines, unreproduced = [], [], []
    for w, v, racetxt in found[:8]:
        path = '%s/replays/%s-%d-%d-%s.json' % (OUT, prop, seed, w['idx'], re.sub(r'[^a-zA-Z0-9]+', '_', v['signature'])[:40])
        json.dump({'property': prop, 'world': w, 'expect': v, 'minimised': False}, open(path, 'w'), indent=1)
        if racetxt is None:
            original = open(path).read()
            subprocess.run([R.cache + '/h', '-min', path, '-out', path], stdout=subprocess.DEVNULL, stderr=subprocess.DEVNULL, timeout=300, env=R.env())
            rc, so, se = R.replay_once(path)
            if rc != 1 or 'VIOLATION property=%s' % prop not in so:
                # the minimised world may lean on process-wide state left behind by the candidates that ran
                # before it in the minimiser's process: fall back to the world as found
                open(path, 'w').write(original)
                rc, so, se = R.replay_once(path)
                note = 'not minimised: the minimised world did not reproduce in a fresh process (process-wide state)'
                if rc != 1 or 'VIOLATION property=%s' % prop not in so:
                    # still not: the finding needs the worlds that ran before it in its worker process
                    rf = json.load(open(path)); a = w['idx'] - w['idx'] % R.cfg['batch']
                    rf['prefix'] = {'seed': seed, 'from': a, 'n': w['idx'] - a, 'tier': tier}
                    json.dump(rf, open(path, 'w'), indent=1)
                    rc, so, se = R.replay_once(path)
                    note = 'not minimised; replays only after worlds %d..%d of the same seed ran in the same process (process-wide state left behind by earlier worlds)' % (a, w['idx'] - 1)
                    if rc != 1 or 'VIOLATION property=%s' % prop not in so:
                        unreproduced.append('replay of %s (%s/%s) did not reproduce in a fresh process, alone or after its batch prefix (rc=%d) %s' % (path, v['oracle'], v['signature'], rc, so[-600:]))
                        continue
                rf = json.load(open(path)); rf['note'] = note
                json.dump(rf, open(path, 'w'), indent=1)
            rf = json.load(open(path))
            v = rf.get('expect') or v
        else:
            # The execution is deterministic, the detector's memory is not (bounded shadow history,
            # address-dependent eviction): a pair it reported once may go unreported in another
            # process.  Try a few fresh processes, then the batch prefix.
            for attempt in range(6):
                rc, so, se = R.replay_once(path)
                s2, _ = race_signature(se)
                if rc == 66 and s2 is not None:
                    break
            if rc != 66:
                rf = json.load(open(path)); a = w['idx'] - w['idx'] % R.cfg['batch']
                rf['prefix'] = {'seed': seed, 'from': a, 'n': w['idx'] - a, 'tier': tier}
                rf['note'] = 'the detector reported this race in the batch run; alone it goes unreported, so the replay runs worlds %d..%d first' % (a, w['idx'] - 1)
                json.dump(rf, open(path, 'w'), indent=1)
                rc, so, se = R.replay_once(path)
                s2, _ = race_signature(se)
            # Which of several racing pairs of one world is reported first is up to the
            # detector's bounded shadow history; the reproduction criterion is therefore
            # "the replay ends with a race report inside the module", not the same pair.
            if rc != 66 or s2 is None or s2.count('<harness:') + s2.count('<outside module>') == 2:
                unreproduced.append('race %s of world %d was reported once by the detector but not again in 6 fresh replays nor after its batch prefix (rc=%d sig=%s)' % (v['signature'], w['idx'], rc, s2))
                continue
            if 'prefix' not in json.load(open(path)):
                R.minimise_race(path, v['signature'])
        k = known_match(known, prop, v['oracle'], v['signature'])
        if k:
            known_lines.append('KNOWN-FINDING: property=%s %s [%s/%s] replay=%s' % (prop, k.get('what', ''), v['oracle'], v['signature'], path))
        else:
            viol_lines.append((path, v))

    for u in unreproduced:
        print('verifctl: unreproduced finding (not reported as a violation): ' + u, file=sys.stderr)
    if unreproduced and not viol_lines and not known_lines:
        die(2, 'verifctl: %d finding(s), none of which reproduced from its replay file (exit 2, not a violation)' % len(unreproduced))

    wall = time.time() - R.t0
    faults = {k: v for k, v in {**counters, **simc}.items() if k.startswith(FAULT_KEYS)}
    ev = {
        'property_id': prop, 'tier': tier, 'seed': seed, 'level': 'exploration',
        'coverage': {
            'evaluations': worlds,
            'distinct_nontrivial': len(distinct),
            'rule': RULES.get(prop, RULES['default']),
            'samples': samples[:3],
            'nontrivial_worlds': nontriv,
            'sim_events': events,
            'runs_per_hour': int(worlds / wall * 3600) if wall > 0 else 0,
            'seeds': {'base': seed, 'world_indexes': [0, max(r['from'] + r['done'] for r in results) if results else 0]},
            'faults_fired': faults,
            'counters': counters,
            'sim_counters': simc,
            'distinct_interleavings': len(inter),
            'yield_sites_hit': len(hit_sites), 'yield_sites_total': sites_total,
            'yield_sites_hit_by_file': site_summary(hit_sites),
            'inconclusive': inconcl,
            'determinism_rechecks': rechecks,
            'real_components': ['mux (root package)', 'internal/tree', 'internal/syntax', 'internal/trace', 'types', 'header'],
            'stubbed': ['sync.Mutex/RWMutex/Pool (simsync shim)', 'http.ResponseWriter (SimConn)', 'request body (SimBody)', 'user handlers / middlewares / builders / matchers / recover funcs'],
            'race_build': bool(PROPS[prop]['race']),
            'known_findings_seen': len(known_lines),
            'unreproduced_findings': len(unreproduced),
            'simulated_time': 'none: mux has no clock; sim_events is the global decision-point count',
        },
        'assumptions': ['seeded sampling, not enumeration: a clean run is evidence, not proof',
                        'yield points at statement boundaries of the instrumented module; no switches inside map-range loops'],
        'wall_s': round(wall, 2),
        'violations': len(viol_lines),
    }
    ev['coverage']['probes'] = {k: counters.get(k, 0) + simc.get(k, 0) for k in PROBES.get(prop, [])}
    zero = [k for k in PROBES.get(prop, []) if counters.get(k, 0) + simc.get(k, 0) == 0]
    if zero:
        ev['coverage']['probes_stuck_at_zero'] = zero
        print('warning: probes at zero: ' + ', '.join(zero))
    os.makedirs(OUT + '/evidence', exist_ok=True)
    json.dump(ev, open('%s/evidence/%s.json' % (OUT, prop), 'w'), indent=1)
    print('%s %s: %d worlds (%d non-trivial, %d distinct), %d sim events, %.1fs, %d/h' % (prop, tier, worlds, nontriv, len(distinct), events, wall, ev['coverage']['runs_per_hour']))
    for l in known_lines:
        print(l)
    for path, v in viol_lines:
        print('violation: oracle=%s signature=%s\n  %s' % (v['oracle'], v['signature'], v['detail'][:1500]))
    for path, v in viol_lines:
        print('VIOLATION property=%s replay=%s' % (prop, path))
    return 1 if viol_lines else 0

_GEN = 'worlds generated from VERIF_SEED (world seed = mix(seed, property, index)); distinct = distinct hash of (options, operation history / task scripts, recorded schedule, faults fired) among non-trivial worlds, unioned across workers and counted up to a cap of 4 000 000 (a lower bound beyond that); '
RULES = {
    'default': _GEN + 'non-trivial = at least one successful table mutation followed by at least one probe/request',
    'C06': _GEN + 'non-trivial = at least one context switch landed inside an in-flight operation of another task (preempt > 0)',
    'C07': _GEN + 'non-trivial = variant b/c: at least one context switch inside an in-flight operation; variant d: every world (two processes compared)',
    'C16': _GEN + 'non-trivial = at least one injected panic fired',
    'C20': _GEN + 'non-trivial = at least one context switch inside an in-flight operation, or a single-task world (allocator faults only)',
    'C18': _GEN + 'non-trivial = table worlds: a mutation followed by a request; helper worlds: every world (a request dumped through the simulated connection)',
    'C13': _GEN + 'non-trivial = a group with at least one router served at least one request',
}
PROBES = {
    'C01': ['c01_dispatch_checked', 'c01_param_dispatch', 'c01_404_checked', 'pool_reuse_newest'],
    'C02': ['c02_paths_resolved', 'c02_expect_404', 'c02_ties'],
    'C03': ['c03_removed_probe', 'op_remove', 'op_pclean', 'op_clean'],
    'C04': ['c04_options_checked', 'c04_405_checked', 'c04_star_checked'],
    'C05': ['hostile_request', 'operator_garbage', 'c05_syntax_agreement'],
    'C06': ['preempt', 'parked_on_lock', 'linearizable_histories', 'lock_blocked'],
    'C07': ['variant_b', 'variant_c', 'variant_d', 'variant_g', 'preempt', 'pool_cross_task_reuse'],
    'C08': ['c08_head_with_get', 'c08_head_without_get', 'c08_content_length_checked', 'op_reject'],
    'C09': ['c09_traces_checked', 'op_guse', 'op_gadd', 'op_gnew'],
    'C13': ['c13_acceptor', 'c13_no_acceptor', 'c13_composites_checked', 'c13_late_admin'],
    'C14': ['c14_matches_checked', 'op_delete', 'op_regic', 'c14_conc_worlds', 'c14_conc_match_checked', 'preempt'],
    'C16': ['fault_h_pre', 'fault_h_mid', 'fault_mw_pre', 'fault_mw_post', 'fault_site_g404', 'fault_site_head', 'fault_value_rt',
            'variant_conc', 'variant_group-conc', 'recovery_none', 'preempt'],
    'C17': ['op_reject', 'c17_snapshots_compared', 'op_reject_duplicate', 'op_reject_malformed', 'op_reject_identical', 'op_reject_unsupported', 'op_reject_method'],
    'C18': ['c18_trace_any_path', 'c18_trace_ordinary', 'c18_allow_checked', 'short_read', 'op_reject', 'trace_write_fault_panic', 'trace_write_fault_err'],
    'C19': ['c19_steps_compared', 'op_fclean', 'op_prefix', 'op_resource', 'op_url'],
    'C20': ['op_new', 'op_destroy', 'pool_cross_task_reuse', 'pool_reuse_oldest', 'preempt'],
}

def replay(path):
    rf = json.load(open(path))
    prop = rf['world']['prop']
    R = Runner(prop, 'quick', 1)
    try:
        rc, so, se = R.replay_once(path)
        sys.stdout.write(so)
        if rc == 66:
            sig, rep = race_signature(se)
            print('replay: race %s\n%s' % (sig, (rep or '')[:3000]))
            print('VIOLATION property=%s replay=%s' % (prop, path))
            return 1
        if rc not in (0, 1):
            sys.stderr.write(se[-3000:])
            return 2
        return rc
    finally:
        R.cleanup()

def main():
    if len(sys.argv) >= 4 and sys.argv[1] == 'check':
        sys.exit(check(sys.argv[2], sys.argv[3]))
    if len(sys.argv) >= 3 and sys.argv[1] == 'replay':
        sys.exit(replay(sys.argv[2]))
    if len(sys.argv) >= 2 and sys.argv[1] == 'selftest':
        import selftest
        sys.exit(selftest.main())
    die(2, __doc__)

if __name__ == '__main__':
    try:
        main()
    except OSError as e:
        # infrastructure trouble (a binary or scratch file vanished, disk full, ...) is never a verdict
        print('verifctl: infrastructure error: %s' % e, file=sys.stderr)
        sys.exit(2)
