#!/bin/bash
# mkmut.sh <out.diff> <file-relative-to-repo> <python expression transforming s>   -> unified diff against /repo
out=$1; f=$2; expr=$3
T=$(mktemp -d /var/tmp/verif-mk-XXXXXX); trap 'rm -rf $T' EXIT
mkdir -p $T/a/$(dirname $f) $T/b/$(dirname $f)
cp /repo/$f $T/a/$f
python3 - "$T/a/$f" "$T/b/$f" "$expr" <<'PY'
import sys
s=open(sys.argv[1]).read()
t=eval(sys.argv[3])
assert t!=s, "mutation did not change the file"
open(sys.argv[2],'w').write(t)
PY
[ $? = 0 ] || exit 1
(cd $T && diff -u a/$f b/$f > $out); true
