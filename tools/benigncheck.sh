#!/bin/bash
# benigncheck.sh <diff> [<check>...]: false-alarm test.  Applies a behaviour-preserving change to a scratch
# copy of /repo, checks that it builds and passes the module's own tests, then runs the named checks
# (default: all) against it.  Every check must exit 0.
set -u
export GOFLAGS=-mod=mod GOPROXY=off GOSUMDB=off GOTOOLCHAIN=local
patch=$(readlink -f "$1"); shift
checks="${*:-C01 C02 C03 C04 C05 C06 C07 C08 C09 C13 C14 C16 C17 C18 C19 C20}"
M=$(mktemp -d /var/tmp/verif-ben-XXXXXX)
trap 'rm -rf "$M"' EXIT
rsync -a --exclude .git /repo/ $M/repo/
(cd $M/repo && patch -p1 -s < "$patch") || { echo "BENIGN $(basename $patch): patch does not apply"; exit 3; }
(cd $M/repo && go build ./... && go test -vet=off -count=1 ./... >/dev/null 2>&1) || { echo "BENIGN $(basename $patch): does not build or fails the module's tests"; exit 3; }
bad=0
for c in $checks; do
  VERIF_CACHE=$M/cache VERIF_REPO=$M/repo VERIF_OUT=$M/out VERIF_BUDGET=${VERIF_BUDGET:-8} /verif/verifctl.py check $c quick > $M/$c.log 2>&1
  r=$?
  if [ $r != 0 ]; then
    bad=1
    echo "BENIGN $(basename $(dirname $patch))/$(basename $patch) $c: exit $r $(grep -a '^violation:' $M/$c.log | cut -c1-160 | head -2 | tr '\n' ';')"
    grep -a -A3 '^violation:' $M/$c.log | head -8 | cut -c1-700
    [ $r = 2 ] && tail -6 $M/$c.log | cut -c1-400
    mkdir -p /var/tmp/benign-alarms; cp -r $M/out/replays /var/tmp/benign-alarms/$(basename $(dirname $patch))-$(basename $patch .diff)-$c 2>/dev/null
  fi
done
[ $bad = 0 ] && echo "BENIGN $(basename $(dirname $patch))/$(basename $patch): all checks silent ($checks)"
exit $bad
