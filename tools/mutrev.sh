#!/bin/bash
# mutrev.sh <fix.diff> <prop>...: like mut.sh but applies the diff in reverse (re-introduces a repaired defect)
set -u
export GOFLAGS=-mod=mod GOPROXY=off GOSUMDB=off GOTOOLCHAIN=local
patch=$(readlink -f "$1"); shift
M=$(mktemp -d /var/tmp/verif-mut-XXXXXX)
trap 'rm -rf "$M"' EXIT
rsync -a --exclude .git /repo/ $M/repo/
(cd $M/repo && patch -R -p1 -s < "$patch") || { echo "MUT $(basename $patch): reverse patch does not apply"; exit 3; }
(cd $M/repo && go build ./... && go test -vet=off -count=1 ./... >/dev/null 2>&1) || { echo "MUT $(basename $patch): does not build or fails the module's tests"; exit 3; }
for p in "$@"; do
  VERIF_REPO=$M/repo VERIF_OUT=$M/out VERIF_BUDGET=${VERIF_BUDGET:-12} /verif/verifctl.py check $p quick > $M/$p.log 2>&1
  r=$?
  echo "MUT $(basename $patch) $p: exit $r; $(grep '^violation:' $M/$p.log | cut -c1-110 | tr '\n' ';')"
  [ $r = 2 ] && tail -5 $M/$p.log
done
