// mutgen: mechanical single-site mutants of a Go source tree (sensitivity testing only;
// the mutants are applied to scratch copies, never to /repo).
//
//	mutgen <root> <outdir> [<rel file>...]
//
// For every non-test .go file (outside examples/ and routertest/) each mutation site yields
// one file <outdir>/<n>.mut holding: line 1 the relative file name, line 2 a description,
// rest the complete mutated file text.
package main

import (
	"fmt"
	"go/ast"
	"go/parser"
	"go/token"
	"os"
	"path/filepath"
	"sort"
	"strconv"
	"strings"
)

type edit struct {
	from, to int // byte offsets in the file
	text     string
	desc     string
}

var swapOp = map[token.Token][]string{
	token.EQL:  {"!="},
	token.NEQ:  {"=="},
	token.LSS:  {"<=", ">"},
	token.LEQ:  {"<", ">="},
	token.GTR:  {">=", "<"},
	token.GEQ:  {">", "<="},
	token.LAND: {"||"},
	token.LOR:  {"&&"},
	token.ADD:  {"-"},
	token.SUB:  {"+"},
}

func main() {
	root, out := os.Args[1], os.Args[2]
	only := map[string]bool{}
	for _, f := range os.Args[3:] {
		only[f] = true
	}
	var files []string
	filepath.Walk(root, func(p string, info os.FileInfo, err error) error {
		if err != nil {
			return nil
		}
		rel, _ := filepath.Rel(root, p)
		if info.IsDir() {
			if rel == ".git" || rel == "examples" || rel == "routertest" || rel == "simrt" {
				return filepath.SkipDir
			}
			return nil
		}
		if strings.HasSuffix(rel, ".go") && !strings.HasSuffix(rel, "_test.go") && (len(only) == 0 || only[rel]) {
			files = append(files, rel)
		}
		return nil
	})
	sort.Strings(files)
	os.MkdirAll(out, 0o755)
	n := 0
	for _, rel := range files {
		src, err := os.ReadFile(filepath.Join(root, rel))
		if err != nil {
			panic(err)
		}
		fset := token.NewFileSet()
		f, err := parser.ParseFile(fset, rel, src, parser.ParseComments)
		if err != nil {
			panic(err)
		}
		off := func(p token.Pos) int { return fset.Position(p).Offset }
		var edits []edit
		add := func(from, to token.Pos, text, kind string) {
			line := fset.Position(from).Line
			edits = append(edits, edit{off(from), off(to), text, fmt.Sprintf("%s:%d %s: %q -> %q", rel, line, kind, string(src[off(from):off(to)]), text)})
		}
		gen2 := os.Getenv("MUTGEN_GEN") == "2"
		text := func(a, b token.Pos) string { return string(src[off(a):off(b)]) }
		if gen2 {
			ast.Inspect(f, func(nd ast.Node) bool {
				switch x := nd.(type) {
				case *ast.SliceExpr:
					if x.Low != nil {
						add(x.Low.Pos(), x.Low.End(), "("+text(x.Low.Pos(), x.Low.End())+")+1", "slice-low+1")
					}
					if x.High != nil {
						add(x.High.Pos(), x.High.End(), "("+text(x.High.Pos(), x.High.End())+")-1", "slice-high-1")
					}
					if x.Low != nil && x.High == nil {
						add(x.Low.Pos(), x.Low.End(), "("+text(x.Low.Pos(), x.Low.End())+")-1", "slice-low-1")
					}
				case *ast.IndexExpr:
					if _, isLit := x.Index.(*ast.BasicLit); !isLit {
						if id, ok := x.Index.(*ast.Ident); !ok || (id.Name != "T" && id.Name != "string") {
							add(x.Index.Pos(), x.Index.End(), "("+text(x.Index.Pos(), x.Index.End())+")+1", "index+1")
						}
					}
				case *ast.ReturnStmt:
					for _, r := range x.Results {
						if id, ok := r.(*ast.Ident); ok && id.Name == "err" {
							add(id.Pos(), id.End(), "nil", "return-nil-err")
						}
					}
				case *ast.BlockStmt:
					for _, st := range x.List {
						if is, ok := st.(*ast.IfStmt); ok && is.Else == nil && is.Init == nil {
							add(is.Pos(), is.End(), "", "drop-if")
						}
						if is, ok := st.(*ast.IfStmt); ok && is.Else != nil {
							add(is.Body.End(), is.End(), "", "drop-else")
						}
						if fs, ok := st.(*ast.ForStmt); ok && fs.Init == nil && fs.Post == nil && fs.Cond != nil {
							add(fs.Pos(), fs.Pos()+3, "if", "for->if")
						}
					}
				case *ast.CallExpr:
					if sel, ok := x.Fun.(*ast.SelectorExpr); ok {
						if pk, ok := sel.X.(*ast.Ident); ok && pk.Name == "strings" {
							swap := map[string]string{"HasPrefix": "HasSuffix", "HasSuffix": "HasPrefix", "IndexByte": "LastIndexByte", "LastIndexByte": "IndexByte", "Index": "LastIndex", "ToLower": "TrimSpace", "TrimSuffix": "TrimPrefix", "TrimPrefix": "TrimSuffix"}
							if to, ok := swap[sel.Sel.Name]; ok {
								add(sel.Sel.Pos(), sel.Sel.End(), to, "strings-func")
							}
						}
						if pk, ok := sel.X.(*ast.Ident); ok && pk.Name == "slices" && sel.Sel.Name == "Concat" && len(x.Args) == 2 {
							add(x.Args[0].Pos(), x.Args[1].End(), text(x.Args[1].Pos(), x.Args[1].End())+", "+text(x.Args[0].Pos(), x.Args[0].End()), "swap-args")
						}
					}
				case *ast.AssignStmt:
					if x.Tok == token.ADD_ASSIGN {
						add(x.TokPos, x.TokPos+2, "-=", "op")
					}
					if x.Tok == token.OR_ASSIGN {
						add(x.TokPos, x.TokPos+2, "&=", "op")
					}
				case *ast.RangeStmt:
					// iterate all but the first / stop one early: only for slices spelled as identifiers or selectors
					switch x.X.(type) {
					case *ast.Ident, *ast.SelectorExpr:
						add(x.X.Pos(), x.X.End(), text(x.X.Pos(), x.X.End())+"[:max(0,len("+text(x.X.Pos(), x.X.End())+")-1)]", "range-short")
					}
				}
				return true
			})
		} else {
			ast.Inspect(f, func(nd ast.Node) bool {
				switch x := nd.(type) {
				case *ast.BinaryExpr:
					for _, r := range swapOp[x.Op] {
						if x.Op == token.ADD || x.Op == token.SUB {
							// skip string concatenation
							if lit, ok := x.X.(*ast.BasicLit); ok && lit.Kind == token.STRING {
								continue
							}
							if lit, ok := x.Y.(*ast.BasicLit); ok && lit.Kind == token.STRING {
								continue
							}
						}
						add(x.OpPos, x.OpPos+token.Pos(len(x.Op.String())), r, "op")
					}
				case *ast.UnaryExpr:
					if x.Op == token.NOT {
						add(x.OpPos, x.OpPos+1, "", "drop-not")
					}
				case *ast.IfStmt:
					if _, isNot := x.Cond.(*ast.UnaryExpr); !isNot {
						add(x.Cond.Pos(), x.Cond.End(), "!("+string(src[off(x.Cond.Pos()):off(x.Cond.End())])+")", "negate-if")
					}
				case *ast.BasicLit:
					if x.Kind == token.INT {
						if v, err := strconv.Atoi(x.Value); err == nil {
							add(x.Pos(), x.End(), strconv.Itoa(v+1), "int+1")
							if v > 0 {
								add(x.Pos(), x.End(), strconv.Itoa(v-1), "int-1")
							}
						}
					}
				case *ast.Ident:
					if x.Name == "true" {
						add(x.Pos(), x.End(), "false", "bool")
					} else if x.Name == "false" {
						add(x.Pos(), x.End(), "true", "bool")
					}
				case *ast.BranchStmt:
					if x.Label == nil {
						if x.Tok == token.BREAK {
							add(x.Pos(), x.End(), "continue", "branch")
						} else if x.Tok == token.CONTINUE {
							add(x.Pos(), x.End(), "break", "branch")
						}
					}
				case *ast.BlockStmt:
					for _, s := range x.List {
						switch st := s.(type) {
						case *ast.ExprStmt:
							if _, ok := st.X.(*ast.CallExpr); ok {
								add(st.Pos(), st.End(), "", "drop-call")
							}
						case *ast.AssignStmt:
							if st.Tok != token.DEFINE {
								add(st.Pos(), st.End(), "", "drop-assign")
							}
						case *ast.IncDecStmt:
							add(st.Pos(), st.End(), "", "drop-incdec")
						case *ast.DeferStmt:
							add(st.Pos(), st.End(), "", "drop-defer")
						}
					}
				case *ast.CaseClause:
					for _, s := range x.Body {
						switch st := s.(type) {
						case *ast.ExprStmt:
							if _, ok := st.X.(*ast.CallExpr); ok {
								add(st.Pos(), st.End(), "", "drop-call")
							}
						case *ast.AssignStmt:
							if st.Tok != token.DEFINE {
								add(st.Pos(), st.End(), "", "drop-assign")
							}
						}
					}
				}
				return true
			})
		}
		for _, e := range edits {
			n++
			body := string(src[:e.from]) + e.text + string(src[e.to:])
			os.WriteFile(filepath.Join(out, fmt.Sprintf("%s%04d.mut", os.Getenv("MUTGEN_PREFIX"), n)), []byte(rel+"\n"+e.desc+"\n"+body), 0o644)
		}
	}
	fmt.Println(n, "mutants")
}
