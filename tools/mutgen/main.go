// mutgen: mechanical single-site mutants of a Go source tree (sensitivity testing only;
// the mutants are applied to scratch copies, never to /repo).
//
//	mutgen <root> <outdir> [<rel file>...]
//
// For every non-test .go file (outside examples/ and routertest/) each mutation site yields
// one file <outdir>/<n>.mut holding: line 1 the relative file name, line 2 a description,
// rest the complete mutated file text.
package main

import (
	"fmt"
	"go/ast"
	"go/parser"
	"go/token"
	"os"
	"path/filepath"
	"sort"
	"strconv"
	"strings"
)

type edit struct {
	from, to int // byte offsets in the file
	text     string
	desc     string
}

var swapOp = map[token.Token][]string{
	token.EQL:  {"!="},
	token.NEQ:  {"=="},
	token.LSS:  {"<=", ">"},
	token.LEQ:  {"<", ">="},
	token.GTR:  {">=", "<"},
	token.GEQ:  {">", "<="},
	token.LAND: {"||"},
	token.LOR:  {"&&"},
	token.ADD:  {"-"},
	token.SUB:  {"+"},
}

func main() {
	root, out := os.Args[1], os.Args[2]
	only := map[string]bool{}
	for _, f := range os.Args[3:] {
		only[f] = true
	}
	var files []string
	filepath.Walk(root, func(p string, info os.FileInfo, err error) error {
		if err != nil {
			return nil
		}
		rel, _ := filepath.Rel(root, p)
		if info.IsDir() {
			if rel == ".git" || rel == "examples" || rel == "routertest" || rel == "simrt" {
				return filepath.SkipDir
			}
			return nil
		}
		if strings.HasSuffix(rel, ".go") && !strings.HasSuffix(rel, "_test.go") && (len(only) == 0 || only[rel]) {
			files = append(files, rel)
		}
		return nil
	})
	sort.Strings(files)
	os.MkdirAll(out, 0o755)
	n := 0
	for _, rel := range files {
		src, err := os.ReadFile(filepath.Join(root, rel))
		if err != nil {
			panic(err)
		}
		fset := token.NewFileSet()
		f, err := parser.ParseFile(fset, rel, src, parser.ParseComments)
		if err != nil {
			panic(err)
		}
		off := func(p token.Pos) int { return fset.Position(p).Offset }
		var edits []edit
		add := func(from, to token.Pos, text, kind string) {
			line := fset.Position(from).Line
			edits = append(edits, edit{off(from), off(to), text, fmt.Sprintf("%s:%d %s: %q -> %q", rel, line, kind, string(src[off(from):off(to)]), text)})
		}
		ast.Inspect(f, func(nd ast.Node) bool {
			switch x := nd.(type) {
			case *ast.BinaryExpr:
				for _, r := range swapOp[x.Op] {
					if x.Op == token.ADD || x.Op == token.SUB {
						// skip string concatenation
						if lit, ok := x.X.(*ast.BasicLit); ok && lit.Kind == token.STRING {
							continue
						}
						if lit, ok := x.Y.(*ast.BasicLit); ok && lit.Kind == token.STRING {
							continue
						}
					}
					add(x.OpPos, x.OpPos+token.Pos(len(x.Op.String())), r, "op")
				}
			case *ast.UnaryExpr:
				if x.Op == token.NOT {
					add(x.OpPos, x.OpPos+1, "", "drop-not")
				}
			case *ast.IfStmt:
				if _, isNot := x.Cond.(*ast.UnaryExpr); !isNot {
					add(x.Cond.Pos(), x.Cond.End(), "!("+string(src[off(x.Cond.Pos()):off(x.Cond.End())])+")", "negate-if")
				}
			case *ast.BasicLit:
				if x.Kind == token.INT {
					if v, err := strconv.Atoi(x.Value); err == nil {
						add(x.Pos(), x.End(), strconv.Itoa(v+1), "int+1")
						if v > 0 {
							add(x.Pos(), x.End(), strconv.Itoa(v-1), "int-1")
						}
					}
				}
			case *ast.Ident:
				if x.Name == "true" {
					add(x.Pos(), x.End(), "false", "bool")
				} else if x.Name == "false" {
					add(x.Pos(), x.End(), "true", "bool")
				}
			case *ast.BranchStmt:
				if x.Label == nil {
					if x.Tok == token.BREAK {
						add(x.Pos(), x.End(), "continue", "branch")
					} else if x.Tok == token.CONTINUE {
						add(x.Pos(), x.End(), "break", "branch")
					}
				}
			case *ast.BlockStmt:
				for _, s := range x.List {
					switch st := s.(type) {
					case *ast.ExprStmt:
						if _, ok := st.X.(*ast.CallExpr); ok {
							add(st.Pos(), st.End(), "", "drop-call")
						}
					case *ast.AssignStmt:
						if st.Tok != token.DEFINE {
							add(st.Pos(), st.End(), "", "drop-assign")
						}
					case *ast.IncDecStmt:
						add(st.Pos(), st.End(), "", "drop-incdec")
					case *ast.DeferStmt:
						add(st.Pos(), st.End(), "", "drop-defer")
					}
				}
			case *ast.CaseClause:
				for _, s := range x.Body {
					switch st := s.(type) {
					case *ast.ExprStmt:
						if _, ok := st.X.(*ast.CallExpr); ok {
							add(st.Pos(), st.End(), "", "drop-call")
						}
					case *ast.AssignStmt:
						if st.Tok != token.DEFINE {
							add(st.Pos(), st.End(), "", "drop-assign")
						}
					}
				}
			}
			return true
		})
		for _, e := range edits {
			n++
			body := string(src[:e.from]) + e.text + string(src[e.to:])
			os.WriteFile(filepath.Join(out, fmt.Sprintf("%04d.mut", n)), []byte(rel+"\n"+e.desc+"\n"+body), 0o644)
		}
	}
	fmt.Println(n, "mutants")
}
