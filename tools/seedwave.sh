#!/bin/bash
# seedwave.sh <tag> <src-prefix> <n-per-prop> [props...]: confirm + test a whole wave of seeded changes.
# For each property P and change i: own check plus the concurrency/related checks most likely to matter.
tag=$1; src=$2; n=$3; shift 3
props="${*:-C01 C02 C03 C04 C05 C06 C07 C08 C09 C13 C14 C16 C17 C18 C19 C20}"
for P in $props; do
  case $P in
    C01) ch="C01 C02 C03 C06";; C02) ch="C02 C01 C16";; C03) ch="C03 C19 C08";; C04) ch="C04 C03 C06";;
    C05) ch="C05 C14 C06";; C06) ch="C06 C16 C07";; C07) ch="C07 C16 C20";; C08) ch="C08 C03 C16";;
    C09) ch="C09 C19 C06";; C13) ch="C13 C09 C07";; C14) ch="C14 C05 C06";; C16) ch="C16 C07";;
    C17) ch="C17 C06 C03";; C18) ch="C18 C04 C13";; C19) ch="C19 C09 C03";; C20) ch="C20 C16 C07";;
  esac
  for i in $(seq 1 $n); do
    [ -f $src$P/patch$i.diff ] || continue
    SEED_SRC=$src$P SEED_TAG=$tag VERIF_BUDGET=${VERIF_BUDGET:-20} /verif/tools/seedcheck.sh $P $i $ch 2>&1 | grep -a "^SEED.*\(check\|NOT\|want\)" | sed 's/demo on unchanged code rc=0 (want 0); suite with change rc=0 (want 0); demo with change rc=1 (want 1)/confirmed/' | cut -c1-230
  done
done
