#!/bin/bash
# mut.sh <patch.diff> <prop> [<prop>...]: sensitivity test.  Applies the patch to a
# scratch copy of /repo (never to /repo), checks that it builds and that the module's
# own tests still pass, runs the named checks against the copy, removes the copy.
# Output/evidence/replays of these runs go to a temp dir, not to /verif/evidence.
set -u
export GOFLAGS=-mod=mod GOPROXY=off GOSUMDB=off GOTOOLCHAIN=local
patch=$(readlink -f "$1"); shift
M=$(mktemp -d /var/tmp/verif-mut-XXXXXX)
trap 'rm -rf "$M"' EXIT
rsync -a --exclude .git /repo/ $M/repo/
(cd $M/repo && patch -p1 -s < "$patch") || { echo "MUT: patch does not apply"; exit 3; }
(cd $M/repo && go build ./... && go test -vet=off -count=1 ./... >/dev/null 2>&1) || { echo "MUT: mutant does not build or fails the module's tests"; exit 3; }
rc=0
for p in "$@"; do
  VERIF_CACHE=$M/cache VERIF_REPO=$M/repo VERIF_OUT=$M/out VERIF_BUDGET=${VERIF_BUDGET:-20} /verif/verifctl.py check $p quick > $M/$p.log 2>&1
  r=$?
  echo "MUT $(basename $patch) $p: exit $r $(grep -c '^VIOLATION' $M/$p.log) violation line(s); $(grep -m1 '^violation:' $M/$p.log | cut -c1-200)"
  [ $r = 2 ] && tail -5 $M/$p.log
  [ $r = 1 ] || rc=1
done
exit $rc
