#!/bin/bash
# seedcheck.sh <PROP> <N> <check>...   confirm sub-agent change N for property PROP and run our checks on it.
#   inputs:  /tmp/out-PROP/patchN.diff, /tmp/out-PROP/demoN/*.go
#   1. scratch copy of /repo; demo passes on unchanged code
#   2. apply patch: builds, module's own tests pass, demo fails
#   3. run the named checks (quick tier, VERIF_BUDGET) against the changed copy
#   4. store /verif/seeded/PROP-N/{patch.diff,demo/,meta.json}
set -u
export GOFLAGS=-mod=mod GOPROXY=off GOSUMDB=off GOTOOLCHAIN=local
P=$1; N=$2; shift 2
SRC=${SEED_SRC:-/tmp/out-$P}
TAG=${SEED_TAG:-}
[ -f $SRC/patch$N.diff ] || { echo "no $SRC/patch$N.diff"; exit 3; }
M=$(mktemp -d /var/tmp/verif-seed-XXXXXX)
trap 'rm -rf "$M"' EXIT
rsync -a --exclude .git /repo/ $M/repo/
pkgdir() { case "$(grep -m1 '^package ' "$1" | awk '{print $2}')" in
  mux|mux_test) echo . ;; tree|tree_test) echo internal/tree ;; syntax|syntax_test) echo internal/syntax ;;
  types|types_test) echo types ;; std|std_test) echo examples/std ;; ctx|ctx_test) echo examples/ctx ;; trace|trace_test) echo internal/trace ;; *) echo . ;; esac; }
demos=""
for f in $SRC/demo$N/*.go; do d=$(pkgdir $f); cp $f $M/repo/$d/; demos="$demos $d"; done
demos=$(echo $demos | tr ' ' '\n' | sort -u | tr '\n' ' ')
rundemo() { local rc=0; for d in $demos; do (cd $M/repo && go test -count=1 -run 'Seeded' ./$d >$M/demo.log 2>&1) || rc=1; (cd $M/repo && go test -race -count=1 -run 'Seeded' ./$d >>$M/demo.log 2>&1) || rc=1; done; return $rc; }
rundemo; clean_demo=$?
(cd $M/repo && patch -p1 -s < $SRC/patch$N.diff) || { echo "SEED $P-$N: patch does not apply"; exit 3; }
(cd $M/repo && go build ./... ) || { echo "SEED $P-$N: does not build"; exit 3; }
# module's own tests without the demo files
mkdir -p $M/hold; for f in $SRC/demo$N/*.go; do d=$(pkgdir $f); mv $M/repo/$d/$(basename $f) $M/hold/; done
(cd $M/repo && go test -vet=off -count=1 ./... >$M/suite.log 2>&1); suite=$?
for f in $SRC/demo$N/*.go; do d=$(pkgdir $f); cp $f $M/repo/$d/; done
rundemo; mut_demo=$?
for f in $SRC/demo$N/*.go; do d=$(pkgdir $f); rm -f $M/repo/$d/$(basename $f); done
echo "SEED $P-$N: demo on unchanged code rc=$clean_demo (want 0); suite with change rc=$suite (want 0); demo with change rc=$mut_demo (want 1)"
res=""
for c in "$@"; do
  VERIF_CACHE=$M/cache VERIF_REPO=$M/repo VERIF_OUT=$M/out VERIF_BUDGET=${VERIF_BUDGET:-25} /verif/verifctl.py check $c quick > $M/$c.log 2>&1
  r=$?
  sig=$(grep -a '^violation:' $M/$c.log | cut -c1-120 | head -3 | tr '\n' ';')
  echo "SEED $P-$N check $c: exit $r $sig"
  [ $r = 2 ] && tail -5 $M/$c.log
  res="$res{\"check\":\"$c\",\"exit\":$r,\"violations\":\"$(echo $sig | sed 's/"/\\"/g')\"},"
done
if [ $clean_demo = 0 ] && [ $suite = 0 ] && [ $mut_demo != 0 ]; then
  D=/verif/seeded/$P-$TAG$N; mkdir -p $D/demo
  cp $SRC/patch$N.diff $D/patch.diff; cp $SRC/demo$N/*.go $D/demo/
  cat > $D/meta.json <<META
{"property": "$P", "source": "independent sub-agent given only the property text and a scratch worktree",
 "confirmed": {"demo_passes_on_unchanged_tree": true, "module_tests_pass_with_change": true, "demo_fails_with_change": true},
 "ran": "tools/seedcheck.sh $P $N $*  (scratch copy of /repo under /var/tmp, removed afterwards)",
 "checks": [${res%,}],
 "needs": "see README excerpt in needs.txt"}
META
  awk "/[Cc]hange $N/,0" $SRC/README.md | head -60 > $D/needs.txt 2>/dev/null
  echo "SEED $P-$TAG$N: stored in $D"
else
  echo "SEED $P-$N: NOT confirmed, not stored"
fi
