#!/bin/bash
# mutsweep.sh <diff>: stage 2 of the mechanical mutation sweep.  Applies one test-surviving mutant to a
# scratch copy of /repo and runs the quick checks one after another (own build cache, VERIF_NCPU workers)
# until one reports a violation.  Prints one line: "<id> CAUGHT <check> <first violation>" or
# "<id> MISSED <desc>" or "<id> TROUBLE <check> ...".  Never touches /repo or /verif/evidence.
set -u
export GOFLAGS=-mod=mod GOPROXY=off GOSUMDB=off GOTOOLCHAIN=local
patch=$(readlink -f "$1")
id=$(basename $patch .diff)
desc=$(cat ${patch%.diff}.desc 2>/dev/null)
checks="${MUT_CHECKS:-C01 C03 C02 C04 C17 C08 C18 C05 C09 C19 C13 C14 C20 C16 C06 C07}"
M=$(mktemp -d /var/tmp/verif-ms-XXXXXX)
trap 'rm -rf "$M"' EXIT
rsync -a --exclude .git /repo/ $M/repo/
(cd $M/repo && patch -p1 -s < "$patch") || { echo "$id TROUBLE patch does not apply"; exit 3; }
export VERIF_CACHE=$M/cache VERIF_REPO=$M/repo VERIF_OUT=$M/out VERIF_BUDGET=${VERIF_BUDGET:-5} VERIF_NCPU=${VERIF_NCPU:-4}
for c in $checks; do
  /verif/verifctl.py check $c quick > $M/$c.log 2>&1
  r=$?
  if [ $r = 1 ]; then echo "$id CAUGHT $c $(grep -a -m1 '^violation:' $M/$c.log | cut -c1-120) | $desc"; exit 0; fi
  if [ $r != 0 ]; then echo "$id TROUBLE $c exit $r $(tail -2 $M/$c.log | tr '\n' ' ' | cut -c1-300) | $desc"; exit 0; fi
done
echo "$id MISSED $desc"
