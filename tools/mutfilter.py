#!/usr/bin/env python3
"""mutfilter.py <mutdir> <survivors dir> [slots]: stage 1 of the mechanical mutation sweep.
Each mutgen mutant is applied to one of a few scratch copies of /repo (fixed paths so that the go build
cache is reused); it is kept, as a unified diff, when it compiles and the module's own tests still pass.
Never touches /repo.  The scratch copies are removed at the end."""
import os, sys, subprocess, shutil, glob, threading, queue
mutdir, out = sys.argv[1], sys.argv[2]
slots = int(sys.argv[3]) if len(sys.argv) > 3 else 8
env = dict(os.environ, GOFLAGS='-mod=mod', GOPROXY='off', GOSUMDB='off', GOTOOLCHAIN='local')
os.makedirs(out, exist_ok=True)
q = queue.Queue()
for m in sorted(glob.glob(mutdir + '/*.mut')):
    q.put(m)
lock = threading.Lock()
def work(k):
    S = '/var/tmp/verif-mf-slot-%d' % k
    shutil.rmtree(S, ignore_errors=True)
    os.makedirs(S)
    subprocess.run(['rsync', '-a', '--exclude', '.git', '/repo/', S + '/repo/'], check=True)
    while True:
        try:
            m = q.get_nowait()
        except queue.Empty:
            break
        ident = os.path.basename(m)[:-4]
        txt = open(m).read()
        rel, desc, body = txt.split('\n', 2)
        orig = open('/repo/' + rel).read()
        open(S + '/repo/' + rel, 'w').write(body)
        try:
            r = subprocess.run('go build ./...', shell=True, cwd=S + '/repo', env=env, capture_output=True)
            if r.returncode != 0:
                res = 'nobuild'
            else:
                try:
                    r = subprocess.run('go test -vet=off -count=1 -timeout 60s ./...', shell=True, cwd=S + '/repo', env=env, capture_output=True, timeout=300)
                    res = 'killed-by-tests' if r.returncode != 0 else 'SURVIVES-TESTS'
                except subprocess.TimeoutExpired:
                    res = 'killed-by-tests'
            if res == 'SURVIVES-TESTS':
                d = subprocess.run(['diff', '-u', '/repo/' + rel, S + '/repo/' + rel], capture_output=True, text=True).stdout.split('\n')
                d[0] = '--- a/' + rel; d[1] = '+++ b/' + rel
                open('%s/%s.diff' % (out, ident), 'w').write('\n'.join(d))
                open('%s/%s.desc' % (out, ident), 'w').write(desc + '\n')
        finally:
            open(S + '/repo/' + rel, 'w').write(orig)
        with lock:
            print(ident, res, desc, flush=True)
    shutil.rmtree(S, ignore_errors=True)
ts = [threading.Thread(target=work, args=(k,)) for k in range(slots)]
[t.start() for t in ts]; [t.join() for t in ts]
print('done')
