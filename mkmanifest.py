#!/usr/bin/env python3
"""Regenerates /verif/MANIFEST.json from the table below (kept in one place so that
the manifest stays valid and consistent with verifctl.py)."""
import json, sys
sys.path.insert(0, '/verif')
import verifctl

CLAIMED = {
 'C01': dict(world='TABLE', tech='deterministic simulation: seeded op-atomic histories of admin tasks and clients with allocator (context-pool) faults; self-contained dispatch-soundness oracle on every response + table model',
             text='Seeded exploration of Handle/Remove/Clean histories issued by several admin tasks, interleaved with client requests whose paths force the matcher to abandon parameter branches; the simulated context pool hands out reused contexts adversarially. Every response is checked against an independent pattern parser and the table model (live pattern, handler identity, path = pattern with values, exact parameter set, clean 404).',
             note='independent pattern parser and table model in /verif/harness are trusted; sampling, not enumeration', ref='§5 C01'),
 'C03': dict(world='TABLE', tech='deterministic simulation: seeded histories of Handle/Remove/Clean/Prefix.Clean/Resource ops from several admin tasks, probed after every step against a route-table model and the reference resolver',
             text='After every administrative step Routes() is compared with the table model and a witness request per live pattern and per method must be served by the model\'s handler (winner among live candidates decided by the reference resolver\'s kind priority); removed pairs must be gone, removals must not change requests that went elsewhere, nothing may panic.',
             note='table model + reference resolver trusted; witnesses use simple values only', ref='§5 C03'),
 'C02': dict(world='TABLE', tech='deterministic simulation: registration order = seeded interleaving of 1-4 registrar tasks on an add-only router; every probed path compared with an order-independent reference resolver (set of admissible outcomes)',
             text='The patterns of a world are partitioned over registrar tasks whose seeded interleaving is the registration order; afterwards generated paths (witnesses, values containing literal bytes, near misses, cross-overs that force backtracking) are resolved by the router and by a reference resolver that never builds a tree; the router must answer with an admissible (pattern, own parameter values) pair, and with 404 exactly when the resolver finds none.',
             note='reference resolver (DESIGN §5-C02) trusted; regexp rules drawn from classes with a unique match that cannot swallow the following literal; this is the property where the simulator contributes only the order axis', ref='§5 C02'),
 'C04': dict(world='TABLE', tech='deterministic simulation: seeded registration/removal histories, Allow sets of OPTIONS/405/OPTIONS * and Node().Methods()/Routes() compared as sets with a method-set model after every step',
             text='After every step of a seeded history the Allow header of OPTIONS and 405 answers (built from the node captured by the builder, as README does), Route.Node().AllowHeader()/Methods(), Routes() and OPTIONS * are compared as sets with the method-set model.',
             note='method-set model trusted; Allow compared as a set, never as text', ref='§5 C04'),
 'C06': dict(world='CONC', tech='deterministic simulation of goroutine interleavings: statement-level yield points + simulated RWMutex under a seeded scheduler (random walk / PCT / lock-edge), Go race detector with hidden scheduler hand-offs, porcupine linearizability against sequential replicas, deadlock detection',
             text='Writers (Handle/Remove/Clean on routes that split and re-merge the nodes of untouched routes) and readers (ServeHTTP, Routes, URL) run as real goroutines, one at a time, on a WithLock(true) router; the seeded scheduler switches at inserted statement boundaries and lock edges. Oracles: the real race detector (scheduler hand-offs hidden from it), deadlock, and porcupine: every recorded history must be linearizable with respect to a sequential replica of the same router.',
             note='yield points at statement boundaries; race detector has a bounded per-word history; replica = the same code run sequentially, so purely sequential defects are not reported here', ref='§5 C06'),
 'C08': dict(world='IO+TABLE', tech='deterministic simulation: seeded handler write scripts on a simulated connection (GET vs HEAD differential on live header map, status, bytes reaching the connection) inside seeded add/remove histories of GET and other methods',
             text='Every registered handler executes a seeded write script (header mutations, WriteHeader, Writes of several sizes incl. 0, Flush) on a simulated connection; after every step of the history GET and HEAD on every live pattern are compared (same handler, status, headers except Content-Length, no body bytes for HEAD, Content-Length = bytes written when the handler never sent the header), HEAD follows GET through all add/remove orders, OPTIONS stays while another method remains, reserved/unknown methods are rejected.',
             note='scripts conform to the ResponseWriter contract (no WriteHeader after Write/Flush); write errors are not injected (a handler may legitimately react to them)', ref='§5 C08'),
 'C17': dict(world='TABLE', tech='deterministic simulation: rejected registrations injected as faults into seeded histories; full observable snapshot before/after every rejected Handle + table model',
             text='Rejected Handle calls (duplicate pattern+method, reserved/unknown/duplicated method at any list position, documented syntax errors, pattern identical up to names to the only route) are woven into seeded histories; the full observable snapshot (Routes, every method on every witness with its Allow set, OPTIONS *) taken before the call must equal the one taken after it; must-reject calls must panic and valid calls must not.',
             note='which calls must be rejected is decided from the documentation only (error text is never parsed); patterns whose syntax the documentation does not settle are not generated', ref='§5 C17'),
 'C18': dict(world='IO+TABLE', tech='deterministic simulation: TRACE requests inside seeded table histories with/without WithTrace; Trace helper on a simulated connection (wire snapshot at WriteHeader) fed by a short-read body stream',
             text='With a TRACE component configured, TRACE to live, removed, never-registered, * and hostile paths must reach that component wrapped in exactly the Use stack, every Allow set / Routes() entry lists TRACE and Handle(…, TRACE) is rejected; without it TRACE is an ordinary method. The bundled helper is run on a simulated connection that snapshots the headers at WriteHeader, with the request body served in seeded short/zero reads: 200, Content-Type on the wire, escaped dump, body iff asked.',
             note='simulated connection emulates net/http header commit semantics', ref='§5 C18'),
 'C05': dict(world='TABLE+GROUP', tech='deterministic simulation: hostile-client and careless-operator tasks (arbitrary bytes as method/path/Host/Accept/pattern/Remove argument) inside seeded histories on a router, a group, a Hosts matcher and version matchers; recover() monitor',
             text='Hostile requests and garbage administrative calls are issued in the middle of seeded Handle/Remove/Clean histories; a panic escaping ServeHTTP / Match while no simulated user component panicked, a CallFunc receiving the zero handler, a panicking CheckSyntax/URL, or a Handle that fails with a runtime.Error instead of an error value is a violation; without interceptors Handle must agree with CheckSyntax.',
             note='the byte-string generators are ordinary input generation; the simulation contributes the histories in which they arrive', ref='§5 C05'),
 'C09': dict(world='TABLE+GROUP', tech='deterministic simulation: seeded op-level interleavings of Use / Prefix / nested Prefix / Resource / Handle / Group.Use / Group.New / Group.Add issued by several admin tasks; onion-order model evaluated at request time (trace) and at wrap time (factory-call multiset)',
             text='Every middleware is a simulated component with a unique tag; after every step every handler kind of every live pattern (each method, automatic HEAD, OPTIONS, 405) plus 404, TRACE, OPTIONS * and the group not-found handler is invoked and its outermost-first tag trace compared with the documented order, and the factory-call log must contain exactly one call per wrapped handler with the documented (method, pattern, router) arguments.',
             note='onion model written from router.go:106-114 / types.go:112-128; the one ordering the text leaves open (router with own Use added later to a group with Use) is not generated', ref='§5 C09'),
 'C13': dict(world='GROUP', tech='deterministic simulation: seeded Add/New/Remove/Use histories on a Group whose matchers are Hosts / path-version / header-version / And / Or nests and simulated matcher components; reference "first acceptor on the original request" + stand-alone twin group',
             text='For every request the reference evaluates each router\'s matcher, in Add order, on a fresh copy of the request as originally received; the group\'s answer (status, handler, parameters incl. matcher-captured ones, path seen, router name, middleware trace) must equal the answer of a stand-alone twin containing only that router, or the group not-found component wrapped in the group\'s Use stack when nobody accepts.',
             note='matchers themselves are real code and are used by the reference on copies (their own correctness is C14/C15); simulated matchers obey the Matcher contract', ref='§5 C13'),
 'C14': dict(world='GROUP', tech='deterministic simulation: seeded Add/Delete/RegisterInterceptor histories with random letter case on a Hosts matcher, probed with generated Host strings; lower-cased domain-set model + the C02 reference resolver; outcomes of other domains re-checked after every Delete; plus worlds with a locked Hosts mutated (one writer task per domain) and matched by concurrent tasks under the seeded statement-level scheduler, checked as single-writer registers over the recorded history and against the last write once quiescent',
             text='Hosts.Match must accept exactly when the independently normalised host resolves against the lower-cased set of registered domains under the reference resolver, leave exactly that pattern\'s parameters in the context (none on rejection), and every earlier probe of another domain must keep its outcome after any Delete, whatever letter case Add/Delete were called with.',
             note='after the first Delete only simple parameter values are probed (removal leaves split nodes split)', ref='§5 C14'),
 'C19': dict(world='TABLE (twin)', tech='deterministic simulation of twin worlds driven by one seed: a program of facade calls (named Prefix / nested Prefix / Resource objects, Handle, Remove, Clean, URL, Use) and its desugaring into plain Router calls, same op interleaving; observation-log equality after every step',
             text='World F executes the facade program, world D its translation into Router.Handle/Remove/URL with concatenated patterns and middleware lists; after every step Routes(), the dispatch outcome, Allow set and middleware trace of every method on every witness, 404 / OPTIONS * / TRACE, URL results, the factory-call multiset and whether the step panicked must be equal.',
             note='Prefix.Clean has no Router counterpart: D removes exactly the model\'s patterns that start with the prefix', ref='§5 C19'),
 'C07': dict(world='CONC', tech='deterministic simulation of goroutine interleavings across distinct instances (routers, Hosts, groups, routers of one shared group) and of concurrent requests (some with nested sub-requests) on a quiescent router (seeded scheduler, adversarial simulated context pool), race detector with hidden hand-offs, solo/sequential replicas; fresh-process pairs for the fresh-router clause; every world cold in its own process',
             text='(b) 2-3 distinct instances (Router, locked Router, Router with TRACE, Hosts, Group), one owner task each, interleaved at statement level: race detector + each task\'s log must equal the log of the same script run alone; (c) a quiescent router (locked or not) serving 2-6 client tasks with globally unique parameter values while the simulated pool reuses contexts adversarially: race detector, parameters read on entry and again after yielding must be the request\'s own, answers equal a sequential replica; (d) a router observed after unrelated routers/Hosts/Groups were used must give the same observation log as the same router built first thing in a fresh child process.',
             note='every C07 world runs without warm-up in its own process (first use of process-wide state is what is examined), so the in-process determinism re-check is replaced by the cross-process self-test', ref='§5 C07'),
 'C16': dict(world='FAULT', tech='deterministic simulation with fault injection: panics armed at every user-code site (handler of each kind before/after writing, each middleware layer before/after next, group not-found) x panic values x sequences of faulting and normal requests; sequential and, on locked routers/groups, concurrent under the seeded scheduler and the race detector; fault-free twin',
             text='Router, Group and routers made by Group.New (incl. router-level override) with each recovery option or none. With recovery: no panic escapes ServeHTTP, the recovery function (or the bundled option\'s sink/status) receives the identical value exactly once per faulting request and never otherwise, every non-faulting request equals the fault-free twin; without it the caller recovers the identical value. Concurrent variant: additionally no deadlock and no race.',
             note='panics in CallFunc, matchers, or routers attached with Group.Add without their own recovery are outside the property and not injected', ref='§5 C16'),
 'C20': dict(world='POOL', tech='deterministic simulation: tasks driving NewContext/Set/Delete/Reset/Destroy on their own contexts, interleaved at statement level under -race, against a simulated allocator (pool reuse newest/oldest/random, fresh, drop decided by the seed); per-context map model + strconv oracle',
             text='Every context handed out by NewContext must start empty (Count, Range, Path, Node, RouterName) whatever object the simulated pool returns - contexts are dirtied before Destroy; after every step Count/Get/Exists/String/Range agree with the map model, Int/Uint/Bool/Float equal strconv on the stored text (value and error), absent keys give the not-exists error, Must* return the default exactly when the strict form fails.',
             note='the value dictionary is ordinary input; the pool and the interleaving are the simulated part', ref='§5 C20'),
}

NOT_APPLICABLE = {
 'C10': 'URL building is a pure function of (pattern, params, strict flag, live-pattern set) of one call: no schedule, clock, stream, allocator or fault in it; its only stateful contact (is the pattern live, under concurrency) is exercised as URL() read operations inside C06.',
 'C11': 'the CORS decision is a pure function of (configuration, request headers, matched node method set) of a single call; nothing for a scheduler or fault injector to act on (the method-set part is C04).',
 'C12': 'same as C11: a pure input/output relation over configuration x request headers; no interleaving, time, I/O or fault dimension.',
 'C15': 'version matchers are pure functions of (version list, path or Accept header); their only multi-party aspect (a rejecting member after a rewriting one inside a Group) is covered by C13.',
}

PENDING = {}

def main():
    props = [json.loads(l) for l in open('/verif/properties.jsonl')]
    checks = []
    for p in props:
        pid = p['id']
        if pid not in CLAIMED:
            continue
        c = CLAIMED[pid]
        checks.append({
            'property_id': pid,
            'quick_cmd': './verifctl.py check %s quick' % pid,
            'thorough_cmd': './verifctl.py check %s thorough' % pid,
            'evidence_file': '/verif/evidence/%s.json' % pid,
            'replay_cmd_template': './verifctl.py replay {path}',
            'engine': 'simrt',
            'level_claimed': {'category': 'exploration', 'text': c['text'], 'design_ref': 'DESIGN.md ' + c['ref']},
            'level_note': c['note'],
            'technique': c['tech'],
        })
    na = []
    for p in props:
        pid = p['id']
        if pid in CLAIMED:
            continue
        if pid in NOT_APPLICABLE:
            na.append({'property_id': pid, 'reason': 'not applicable to deterministic simulation: ' + NOT_APPLICABLE[pid]})
        else:
            na.append({'property_id': pid, 'reason': 'not claimed yet: ' + PENDING.get(pid, 'the simulated world for this property is designed (DESIGN.md §5) but its check is not built/validated yet')})
    m = {
        'version': 1,
        'setup_cmd': './setup.sh',
        'hooks': {
            'guard': 'none in /repo: seams are created by /verif/bin/instr on a scratch copy of the working tree (yield points, sync shim); /repo carries no hook code',
            'enable': './prepare.sh copies /repo to a scratch dir, instruments it and builds the harness (plain and -race); every check calls it first',
            'baseline_off_cmd': 'cd /repo && go test -vet=off -count=1 ./...',
            'source_commits': [],
            'add_only': True,
        },
        'engines': [{'name': 'simrt', 'path': '/verif/sim/simrt', 'serves_properties': sorted(CLAIMED),
                     'kind_free_text': 'deterministic simulator: source-instrumented yield points, seeded scheduler (walk/PCT/lock-edge/op-atomic), simulated sync.RWMutex/Pool, simulated connection and user components, race detector with hidden hand-offs, porcupine for linearizability'}],
        'checks': checks,
        'not_applicable': na,
        'notes': 'All checks: exit 0 held / 1 VIOLATION line with a replay file / 2 infrastructure. Known findings: /verif/known_findings.json. VERIF_SEED selects the base seed; VERIF_BUDGET / VERIF_WORLDS override the per-tier budget.',
    }
    json.dump(m, open('/verif/MANIFEST.json', 'w'), indent=1)
    print('MANIFEST.json: %d checks, %d not claimed' % (len(checks), len(na)))

if __name__ == '__main__':
    main()
