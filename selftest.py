#!/usr/bin/env python3
"""Determinism self-test of the simulator (verifctl.py selftest).

For every property: the same worlds (same VERIF_SEED, same indexes) are executed in
separate processes at GOMAXPROCS 1, 4 and 16, twice each, with the plain and (for
race-built properties) the -race binary; the per-world event hashes (switch sequence,
every operation outcome) must be byte-identical.  Exit 0 = deterministic, 2 = not.
"""
import os, subprocess, sys, tempfile, shutil
sys.path.insert(0, os.path.dirname(os.path.abspath(__file__)))
import verifctl

def main():
    cache = verifctl.prepare()
    tmp = tempfile.mkdtemp(prefix='verif-self-', dir=os.environ.get('VERIF_SCRATCH', '/var/tmp'))
    seeds = [int(x) for x in os.environ.get('VERIF_SELFTEST_SEEDS', '1,2,3,4').split(',')]
    n = int(os.environ.get('VERIF_SELFTEST_WORLDS', '16'))
    bad = 0
    total = 0
    try:
        only = [x for x in os.environ.get('VERIF_SELFTEST_PROPS', '').split(',') if x]
        for prop, cfg in sorted(verifctl.PROPS.items()):
            if only and prop not in only:
                continue
            bins = [cache + '/h'] + ([cache + '/h.race'] if cfg['race'] else [])
            for seed in seeds:
                ref = None
                procs = []
                for b in bins:
                    for gmp in (1, 4, 16):
                        for rep in (0, 1):
                            out = '%s/%s-%d-%s-%d-%d' % (tmp, prop, seed, os.path.basename(b), gmp, rep)
                            env = dict(os.environ, GOMAXPROCS=str(gmp), GORACE='halt_on_error=1 exitcode=66 atexit_sleep_ms=0')
                            if cfg.get('cold'):
                                # cold properties: one world per process
                                cmds = [[b, '-prop', prop, '-seed', str(seed), '-from', str(i), '-n', '1', '-selftest', out + '.%d' % i, '-out', os.devnull] for i in range(min(n, int(os.environ.get('VERIF_SELFTEST_COLD', '4'))))]
                                env['VERIF_COLD'] = '1'
                            else:
                                cmds = [[b, '-prop', prop, '-seed', str(seed), '-from', '0', '-n', str(n), '-selftest', out, '-out', os.devnull]]
                            for c in cmds:
                                procs.append((subprocess.Popen(c, env=env, stdout=subprocess.DEVNULL, stderr=subprocess.DEVNULL), c))
                for p, c in procs:
                    p.wait()
                # compare
                groups = {}
                for f in sorted(os.listdir(tmp)):
                    if not f.startswith('%s-%d-' % (prop, seed)):
                        continue
                    suffix = f.split('.')[-1] if cfg.get('cold') else ''
                    groups.setdefault(suffix, []).append(open(os.path.join(tmp, f)).read())
                for suffix, texts in groups.items():
                    total += len(texts)
                    if len(set(texts)) != 1 or not texts[0].strip():
                        bad += 1
                        print('NONDETERMINISTIC: %s seed %d %s: %d distinct logs among %d executions' % (prop, seed, suffix, len(set(texts)), len(texts)))
                for f in os.listdir(tmp):
                    os.unlink(os.path.join(tmp, f))
        print('selftest: %d executions compared, %d mismatching groups' % (total, bad))
        return 2 if bad else 0
    finally:
        shutil.rmtree(tmp, ignore_errors=True)

if __name__ == '__main__':
    sys.exit(main())
