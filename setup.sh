#!/bin/bash
# setup.sh: build the framework from files on disk only (offline) and warm the
# binary cache for /repo's current tree.
set -e
export GOFLAGS=-mod=mod GOPROXY=off GOSUMDB=off GOTOOLCHAIN=local
cd /verif
mkdir -p bin evidence replays .cache
(cd tools && go build -o /verif/bin/instr ./instr)
./prepare.sh >/dev/null
echo "setup ok"
