#!/bin/bash
# setup.sh: build the framework from files on disk only (offline) and warm the
# binary cache for /repo's current tree.
set -e
export GOFLAGS=-mod=mod GOPROXY=off GOSUMDB=off GOTOOLCHAIN=local
cd "$(dirname "$(readlink -f "$0")")"
V=$PWD
mkdir -p bin evidence replays .cache
(cd tools && go build -o $V/bin/instr ./instr)
./prepare.sh >/dev/null
echo "setup ok"
